"""
Replay worker: runs jobs against the UNPATCHED flowmark from /repo's working tree (real ``len``,
public API) in a fresh interpreter.  Used for
  * per-path validation of the symbolic runs (assumptions A1/A2),
  * confirming a solver counterexample before it is reported.

usage: python -m engines.replay_worker IN.json OUT.json
IN  = list of jobs {"op": ..., ...};  OUT = list of {"out": ..., "exc": ...} in the same order.
"""
from __future__ import annotations

import json
import sys
import traceback
from typing import Any


def _enum(v: Any) -> Any:
    return v


class _JobTimeout(BaseException):
    pass


def run_job(job: dict[str, Any]) -> dict[str, Any]:
    """one job under a wall-clock limit: code that does not return is reported ({"timeout": s}), never waited for"""
    import os
    import signal
    import time

    limit = float(job.get("limit_s") or os.environ.get("VERIF_JOB_LIMIT_S", "60"))

    def on_alarm(_sig: int, _frm: Any) -> None:
        raise _JobTimeout()

    old = signal.signal(signal.SIGALRM, on_alarm)
    signal.setitimer(signal.ITIMER_REAL, limit)
    t0 = time.time()
    try:
        r = _run_job(job)
        if job.get("timed"):
            r["seconds"] = round(time.time() - t0, 4)
        return r
    except _JobTimeout:
        return {"timeout": limit, "exc": f"JobTimeout: no result within {limit:g} s"}
    finally:
        signal.setitimer(signal.ITIMER_REAL, 0)
        signal.signal(signal.SIGALRM, old)


def _run_job(job: dict[str, Any]) -> dict[str, Any]:
    op = job["op"]
    try:
        if op == "reformat_text":
            from flowmark import reformat_text
            from flowmark.formats.flowmark_markdown import ListSpacing

            kw = dict(job.get("kwargs", {}))
            if "list_spacing" in kw:
                kw["list_spacing"] = ListSpacing(kw["list_spacing"])
            out = reformat_text(job["text"], **kw)
            n = int(job.get("times", 1))
            outs = [out]
            for _ in range(n - 1):
                out = reformat_text(out, **kw)
                outs.append(out)
            return {"out": outs[-1] if n == 1 else outs}
        if op == "reformat_chain":
            # format with kwargs list in sequence
            from flowmark import reformat_text
            from flowmark.formats.flowmark_markdown import ListSpacing

            out = job["text"]
            outs = []
            for kw in job["chain"]:
                kw = dict(kw)
                if "list_spacing" in kw:
                    kw["list_spacing"] = ListSpacing(kw["list_spacing"])
                out = reformat_text(out, **kw)
                outs.append(out)
            return {"out": outs}
        if op == "wrap_api":
            import flowmark.linewrapping.line_wrappers as lw
            import flowmark.linewrapping.text_filling as tf
            import flowmark.linewrapping.text_wrapping as tw

            fn = job["fn"]
            kw = dict(job.get("kwargs", {}))
            if kw.get("splitter") == "simple":
                kw["splitter"] = tw.simple_word_splitter
            if kw.get("word_splitter") == "simple":
                kw["word_splitter"] = tw.simple_word_splitter
            if fn == "wrap_paragraph_lines":
                return {"out": tw.wrap_paragraph_lines(job["text"], **kw)}
            if fn == "wrap_paragraph":
                return {"out": tw.wrap_paragraph(job["text"], **kw)}
            if fn == "fill_text":
                kw["text_wrap"] = tf.Wrap(kw["text_wrap"])
                return {"out": tf.fill_text(job["text"], **kw)}
            if fn == "line_wrap_to_width":
                w = lw.line_wrap_to_width(**kw)
                return {"out": w(job["text"], job["initial_indent"], job["subsequent_indent"])}
            if fn == "line_wrap_by_sentence":
                w = lw.line_wrap_by_sentence(**kw)
                return {"out": w(job["text"], job["initial_indent"], job["subsequent_indent"])}
            raise ValueError(fn)
        if op == "case":
            from engines.driver import run_concrete

            return run_concrete(job["module"], job["case"], job["model"])
        if op == "call":
            # generic: module, function, args, kwargs (JSON values only)
            import importlib

            mod = importlib.import_module(job["module"])
            f = mod
            for part in job["name"].split("."):
                f = getattr(f, part)
            r = f(*job.get("args", []), **job.get("kwargs", {}))
            return {"out": r}
        raise ValueError(f"unknown op {op}")
    except Exception as e:  # noqa: BLE001
        return {"exc": f"{type(e).__name__}: {e}", "tb": traceback.format_exc()[-2000:]}


def main() -> None:
    jobs = json.load(open(sys.argv[1]))
    res = [run_job(j) for j in jobs]
    json.dump(res, open(sys.argv[2], "w"))


if __name__ == "__main__":
    main()
