"""
Minimal symbolic-string proxy (z3 sequence theory) for executing small *real* string functions under the
symlen Explorer: concatenation, constant slices/indices (with feasibility-checked IndexError), equality, and
compiled-pattern proxies whose .match/.search/.fullmatch truthiness is regex membership (via re2smt).
Anything else on a proxy raises HarnessError (refuse, never guess).
"""
from __future__ import annotations

from typing import Any

import z3

from engines import re2smt
from engines.symlen import HarnessError, SymBool, SymInt


def sterm(x: Any) -> Any:
    if isinstance(x, SymStr):
        return x.t
    if isinstance(x, str):
        return z3.StringVal(x)
    raise HarnessError(f"no string term for {x!r}")


class SymStr:
    __slots__ = ("t",)

    def __init__(self, t: Any):
        self.t = t

    def __add__(self, o: Any) -> "SymStr":
        return SymStr(z3.Concat(self.t, sterm(o)))

    def __radd__(self, o: Any) -> "SymStr":
        return SymStr(z3.Concat(sterm(o), self.t))

    def slen(self) -> SymInt:
        return SymInt(z3.Length(self.t))

    def __len__(self) -> int:
        raise HarnessError("len() of a SymStr must go through a length hook")

    def __getitem__(self, k: Any) -> "SymStr":
        n = z3.Length(self.t)
        if isinstance(k, int):
            ok = (n > k) if k >= 0 else (n >= -k)
            if not bool(SymBool(ok)):
                raise IndexError("string index out of range")
            pos = z3.IntVal(k) if k >= 0 else n + k
            return SymStr(z3.SubString(self.t, pos, 1))
        if isinstance(k, slice) and k.step is None:
            a, b = k.start, k.stop
            if not all(x is None or isinstance(x, int) for x in (a, b)):
                raise HarnessError("symbolic slice bounds")

            def pos(x: Any, default: Any) -> Any:
                if x is None:
                    return default
                if x >= 0:
                    return z3.If(n < x, n, z3.IntVal(x))
                return z3.If(n + x < 0, z3.IntVal(0), n + x)

            s, e = pos(a, z3.IntVal(0)), pos(b, n)
            return SymStr(z3.SubString(self.t, s, z3.If(e - s < 0, z3.IntVal(0), e - s)))
        raise HarnessError(f"unsupported subscript {k!r}")

    def __eq__(self, o: Any) -> Any:  # type: ignore[override]
        if isinstance(o, (SymStr, str)):
            return SymBool(self.t == sterm(o))
        return False

    def __ne__(self, o: Any) -> Any:  # type: ignore[override]
        if isinstance(o, (SymStr, str)):
            return SymBool(self.t != sterm(o))
        return True

    def __hash__(self) -> int:  # type: ignore[override]
        raise HarnessError("SymStr reached __hash__")

    def __bool__(self) -> bool:
        return bool(SymBool(z3.Length(self.t) > 0))

    def startswith(self, p: Any) -> SymBool:
        if isinstance(p, tuple):
            return SymBool(z3.Or([z3.PrefixOf(sterm(x), self.t) for x in p]))
        return SymBool(z3.PrefixOf(sterm(p), self.t))

    def endswith(self, p: Any) -> SymBool:
        if isinstance(p, tuple):
            return SymBool(z3.Or([z3.SuffixOf(sterm(x), self.t) for x in p]))
        return SymBool(z3.SuffixOf(sterm(p), self.t))

    def __repr__(self) -> str:
        return f"SymStr({self.t})"


class PatternProxy:
    """Stands in for a module-level compiled pattern while a real function runs on a SymStr."""

    def __init__(self, pat: Any):
        self.real = pat
        self.pattern = pat.pattern
        self.flags = pat.flags
        self._match = re2smt.match_lang(pat)
        self._full = re2smt.fullmatch_lang(pat)

    def match(self, s: Any, *a: Any) -> Any:
        if isinstance(s, SymStr):
            return SymBool(z3.InRe(s.t, self._match))
        return self.real.match(s, *a)

    def fullmatch(self, s: Any, *a: Any) -> Any:
        if isinstance(s, SymStr):
            return SymBool(z3.InRe(s.t, self._full))
        return self.real.fullmatch(s, *a)

    def search(self, s: Any, *a: Any) -> Any:
        if isinstance(s, SymStr):
            body, a_start, a_end = re2smt.translate(self.real)
            any_ = z3.Star(re2smt.ANY_CHAR)
            lang = z3.Concat(*( ([] if a_start else [any_]) + [body] + ([] if a_end else [any_]) )) if (not a_start or not a_end) else body
            return SymBool(z3.InRe(s.t, lang))
        return self.real.search(s, *a)

    def __getattr__(self, n: str) -> Any:
        raise HarnessError(f"pattern method {n} is not modelled")
