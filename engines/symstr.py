"""
Minimal symbolic-string proxy (z3 sequence theory) for executing small *real* string functions under the
symlen Explorer: concatenation, constant slices/indices (with feasibility-checked IndexError), equality, and
compiled-pattern proxies whose .match/.search/.fullmatch truthiness is regex membership (via re2smt).
Anything else on a proxy raises HarnessError (refuse, never guess).
"""
from __future__ import annotations

from typing import Any

import z3

from engines import re2smt
from engines.symlen import HarnessError, SymBool, SymInt


def sterm(x: Any) -> Any:
    if isinstance(x, SymStr):
        return x.t
    if isinstance(x, str):
        return z3.StringVal(x)
    raise HarnessError(f"no string term for {x!r}")


class SymStr:
    __slots__ = ("t",)

    def __init__(self, t: Any):
        self.t = t

    def __add__(self, o: Any) -> "SymStr":
        return SymStr(z3.Concat(self.t, sterm(o)))

    def __radd__(self, o: Any) -> "SymStr":
        return SymStr(z3.Concat(sterm(o), self.t))

    def slen(self) -> SymInt:
        return SymInt(z3.Length(self.t))

    def __len__(self) -> int:
        raise HarnessError("len() of a SymStr must go through a length hook")

    def __getitem__(self, k: Any) -> "SymStr":
        n = z3.Length(self.t)
        if isinstance(k, int):
            ok = (n > k) if k >= 0 else (n >= -k)
            if not bool(SymBool(ok)):
                raise IndexError("string index out of range")
            pos = z3.IntVal(k) if k >= 0 else n + k
            return SymStr(z3.SubString(self.t, pos, 1))
        if isinstance(k, slice) and k.step is None:
            a, b = k.start, k.stop
            if not all(x is None or isinstance(x, int) for x in (a, b)):
                raise HarnessError("symbolic slice bounds")

            def pos(x: Any, default: Any) -> Any:
                if x is None:
                    return default
                if x >= 0:
                    return z3.If(n < x, n, z3.IntVal(x))
                return z3.If(n + x < 0, z3.IntVal(0), n + x)

            s, e = pos(a, z3.IntVal(0)), pos(b, n)
            return SymStr(z3.SubString(self.t, s, z3.If(e - s < 0, z3.IntVal(0), e - s)))
        raise HarnessError(f"unsupported subscript {k!r}")

    def __eq__(self, o: Any) -> Any:  # type: ignore[override]
        if isinstance(o, (SymStr, str)):
            return SymBool(self.t == sterm(o))
        return False

    def __ne__(self, o: Any) -> Any:  # type: ignore[override]
        if isinstance(o, (SymStr, str)):
            return SymBool(self.t != sterm(o))
        return True

    def __hash__(self) -> int:  # type: ignore[override]
        raise HarnessError("SymStr reached __hash__")

    def __bool__(self) -> bool:
        return bool(SymBool(z3.Length(self.t) > 0))

    def startswith(self, p: Any) -> SymBool:
        if isinstance(p, tuple):
            return SymBool(z3.Or([z3.PrefixOf(sterm(x), self.t) for x in p]))
        return SymBool(z3.PrefixOf(sterm(p), self.t))

    def endswith(self, p: Any) -> SymBool:
        if isinstance(p, tuple):
            return SymBool(z3.Or([z3.SuffixOf(sterm(x), self.t) for x in p]))
        return SymBool(z3.SuffixOf(sterm(p), self.t))

    def __repr__(self) -> str:
        return f"SymStr({self.t})"


class PatternProxy:
    """Stands in for a module-level compiled pattern while a real function runs on a SymStr."""

    def __init__(self, pat: Any):
        self.real = pat
        self.pattern = pat.pattern
        self.flags = pat.flags
        self._match = re2smt.match_lang(pat)
        self._full = re2smt.fullmatch_lang(pat)

    def match(self, s: Any, *a: Any) -> Any:
        if isinstance(s, SymStr):
            return SymBool(z3.InRe(s.t, self._match))
        return self.real.match(s, *a)

    def fullmatch(self, s: Any, *a: Any) -> Any:
        if isinstance(s, SymStr):
            return SymBool(z3.InRe(s.t, self._full))
        return self.real.fullmatch(s, *a)

    def search(self, s: Any, *a: Any) -> Any:
        if isinstance(s, SymStr):
            body, a_start, a_end = re2smt.translate(self.real)
            any_ = z3.Star(re2smt.ANY_CHAR)
            lang = z3.Concat(*( ([] if a_start else [any_]) + [body] + ([] if a_end else [any_]) )) if (not a_start or not a_end) else body
            return SymBool(z3.InRe(s.t, lang))
        return self.real.search(s, *a)

    def __getattr__(self, n: str) -> Any:
        raise HarnessError(f"pattern method {n} is not modelled")


# ------------------------------------------------------------------------------------------
# py2smt-light: run a small real string function on SymStr after an AST pass that reroutes the few operations
# whose C-level protocol rejects a proxy (`x in "lit"`, `len(x)`), then explore it with the symlen Explorer.
# ------------------------------------------------------------------------------------------

import ast
import inspect
import textwrap

_WS_CHARS = " \t\n\r\x0b\x0c"
_fresh = [0]


def _ws_re() -> Any:
    return z3.Star(z3.Union(*[z3.Re(z3.StringVal(c)) for c in _WS_CHARS]))


def _not_ws_start(t: Any) -> Any:
    first = z3.SubString(t, 0, 1)
    return z3.Or(z3.Length(t) == 0, z3.And(*[first != z3.StringVal(c) for c in _WS_CHARS]))


def _not_ws_end(t: Any) -> Any:
    last = z3.SubString(t, z3.Length(t) - 1, 1)
    return z3.Or(z3.Length(t) == 0, z3.And(*[last != z3.StringVal(c) for c in _WS_CHARS]))


def _strip(self: SymStr, left: bool, right: bool) -> SymStr:
    """fresh variables with defining constraints (ASCII whitespace only - stated modelling bound)"""
    from engines import symlen as S

    ex = S._cur()
    n = ex.notes.get("_fresh", 0) + 1   # per-path counter: the same names on every re-execution
    ex.notes["_fresh"] = n
    core = z3.String(f"_strip{n}")
    parts = []
    cons = []
    if left:
        l = z3.String(f"_lws{n}")
        parts.append(l)
        cons += [z3.InRe(l, _ws_re()), _not_ws_start(core)]
    parts.append(core)
    if right:
        r = z3.String(f"_rws{n}")
        parts.append(r)
        cons += [z3.InRe(r, _ws_re()), _not_ws_end(core)]
    cons.append(self.t == (z3.Concat(*parts) if len(parts) > 1 else parts[0]))
    for c in cons:
        ex._assume_pre(c)
    return SymStr(core)


class LazyStrip(SymStr):
    """
    x.strip() / lstrip() / rstrip() whose only use is a comparison with a constant: strip(x) == c  <=>  x in ws* c ws*
    (c without leading/trailing whitespace; otherwise the comparison is false) - a regex membership instead of fresh
    string variables.  Any other use materialises the fresh-variable model (`.t`).
    """
    __slots__ = ("base", "left", "right", "_t")

    def __init__(self, base: SymStr, left: bool, right: bool):
        self.base, self.left, self.right, self._t = base, left, right, None

    @property
    def t(self) -> Any:  # type: ignore[override]
        if self._t is None:
            self._t = _strip(self.base, self.left, self.right).t
        return self._t

    def _eq_const(self, c: str) -> Any:
        if (self.left and c[:1] and c[0] in _WS_CHARS) or (self.right and c[-1:] and c[-1] in _WS_CHARS):
            return z3.BoolVal(False)
        parts = ([_ws_re()] if self.left else []) + ([z3.Re(z3.StringVal(c))] if c else []) + ([_ws_re()] if self.right else [])
        if c == "" and self.left and self.right:
            parts = [_ws_re()]
        return z3.InRe(self.base.t, z3.Concat(*parts) if len(parts) > 1 else parts[0])

    def __eq__(self, o: Any) -> Any:  # type: ignore[override]
        if isinstance(o, str) and self._t is None:
            return SymBool(self._eq_const(o))
        return SymStr.__eq__(self, o)

    def __ne__(self, o: Any) -> Any:  # type: ignore[override]
        if isinstance(o, str) and self._t is None:
            return SymBool(z3.Not(self._eq_const(o)))
        return SymStr.__ne__(self, o)

    def __hash__(self) -> int:  # type: ignore[override]
        raise HarnessError("SymStr reached __hash__")

    def __bool__(self) -> bool:
        if self._t is None:
            return bool(SymBool(z3.Not(self._eq_const(""))))
        return SymStr.__bool__(self)


def _mk_strip(left: bool, right: bool, what: str) -> Any:
    def f(self: SymStr, chars: Any = None) -> SymStr:
        if chars is not None:
            raise HarnessError(f"{what}(chars)")
        return LazyStrip(self, left, right)
    return f


SymStr.lstrip = _mk_strip(True, False, "lstrip")  # type: ignore[attr-defined]
SymStr.rstrip = _mk_strip(False, True, "rstrip")  # type: ignore[attr-defined]
SymStr.strip = _mk_strip(True, True, "strip")  # type: ignore[attr-defined]
SymStr.isdigit = lambda self: SymBool(z3.InRe(self.t, z3.Plus(z3.Range(z3.StringVal("0"), z3.StringVal("9")))))  # type: ignore[attr-defined]
SymStr.isspace = lambda self: SymBool(z3.InRe(self.t, z3.Plus(z3.Union(*[z3.Re(z3.StringVal(c)) for c in _WS_CHARS]))))  # type: ignore[attr-defined]


def _in(a: Any, b: Any) -> Any:
    if isinstance(a, SymStr) and isinstance(b, str):
        return SymBool(z3.Contains(z3.StringVal(b), a.t)) if b else SymBool(a.t == z3.StringVal(""))
    if isinstance(b, SymStr):
        return SymBool(z3.Contains(b.t, sterm(a)))
    return a in b


def _len(x: Any) -> Any:
    return x.slen() if isinstance(x, SymStr) else len(x)


class _Rewrite(ast.NodeTransformer):
    def visit_Compare(self, node: ast.Compare) -> Any:
        self.generic_visit(node)
        if len(node.ops) == 1 and isinstance(node.ops[0], (ast.In, ast.NotIn)):
            call = ast.Call(func=ast.Name(id="_in", ctx=ast.Load()), args=[node.left, node.comparators[0]], keywords=[])
            if isinstance(node.ops[0], ast.NotIn):
                return ast.Call(func=ast.Name(id="_not", ctx=ast.Load()), args=[call], keywords=[])
            return call
        return node

    def visit_Call(self, node: ast.Call) -> Any:
        self.generic_visit(node)
        if isinstance(node.func, ast.Name) and node.func.id == "len" and len(node.args) == 1:
            node.func = ast.Name(id="_len", ctx=ast.Load())
        elif isinstance(node.func, ast.Attribute) and node.func.attr == "join" and len(node.args) == 1 and not node.keywords:
            # sep.join(seq): str.join rejects proxies at the C level
            return ast.Call(func=ast.Name(id="_join", ctx=ast.Load()), args=[node.func.value, node.args[0]], keywords=[])
        return node

    def visit_UnaryOp(self, node: ast.UnaryOp) -> Any:
        self.generic_visit(node)
        if isinstance(node.op, ast.Not):
            return ast.Call(func=ast.Name(id="_not", ctx=ast.Load()), args=[node.operand], keywords=[])
        return node


def _join(sep: Any, seq: Any) -> Any:
    items = list(seq)
    if not isinstance(sep, str) or not any(isinstance(x, SymStr) for x in items):
        return sep.join(items)
    parts: list[Any] = []
    for i, x in enumerate(items):
        if i and sep:
            parts.append(z3.StringVal(sep))
        parts.append(sterm(x))
    return SymStr(z3.Concat(*parts) if len(parts) > 1 else parts[0])


def _not(x: Any) -> Any:
    if isinstance(x, SymBool):
        return ~x
    if isinstance(x, LazyStrip) and x._t is None:
        return SymBool(x._eq_const(""))
    if isinstance(x, SymStr):
        return SymBool(z3.Length(x.t) == 0)
    return not x


def lift(fn: Any) -> Any:
    """Re-compile the *current source* of a small string function with `in` / `len` / `not` rerouted to proxy-aware
    helpers; every other statement is executed as written (loops, early returns, elif chains)."""
    src = textwrap.dedent(inspect.getsource(fn))
    tree = _Rewrite().visit(ast.parse(src))
    ast.fix_missing_locations(tree)
    ns = dict(fn.__globals__)
    ns.update(_in=_in, _len=_len, _not=_not, _join=_join)
    exec(compile(tree, f"<lifted {fn.__name__}>", "exec"), ns)
    return ns[fn.__name__]
