"""
symlen -- a small dynamic symbolic executor for *integers* over real Python code (z3 back end).

Symbolic values are proxy objects (SymInt / SymBool) wrapping z3 Int / Bool terms.  Arithmetic
and comparisons build terms; ``SymBool.__bool__`` is the only fork point: z3 is asked which
sides are satisfiable under the current path condition, the decision is put on a trail, and the
driver (``Explorer.explore``) re-executes the *real* function until every feasible trail has
been followed (depth first).  Everything that is not an integer (strings, Marko, regexes) runs
natively and concretely.

Fail-closed rules
 * a SymInt that reaches ``__index__`` / ``__hash__`` / ``__int__`` raises HarnessError
   (a BaseException, so no ``except Exception`` in the code under test can swallow it);
 * a z3 ``unknown`` raises Inconclusive for that path (recorded, never a pass);
 * the decision trail is checked for determinism on every re-execution.
"""
from __future__ import annotations

import builtins
import re
import signal
import time
from dataclasses import dataclass, field
from typing import Any, Callable

import z3

_builtin_len = builtins.len


class HarnessError(BaseException):
    """The harness / engine cannot soundly continue (never reported as a pass or a violation)."""


class Inconclusive(BaseException):
    """Solver returned unknown on this path."""


class PathLimit(BaseException):
    """Path budget exhausted."""


class PathTimeout(BaseException):
    """One path of the code under test did not return within the wall-clock limit; carries a model of the path so far."""

    def __init__(self, msg: str, model: dict[str, int] | None = None):
        super().__init__(msg)
        self.model = model


# ------------------------------------------------------------------------------------------
# proxies
# ------------------------------------------------------------------------------------------

_CUR: "Explorer | None" = None


def _cur() -> "Explorer":
    if _CUR is None:
        raise HarnessError("symbolic value used outside an exploration")
    return _CUR


_INTVALS: dict[int, Any] = {}


def _intval(n: int) -> Any:
    v = _INTVALS.get(n)
    if v is None:
        v = z3.IntVal(n)
        if -4096 <= n <= 4096:
            _INTVALS[n] = v
    return v


def _term(x: Any) -> Any:
    if isinstance(x, SymInt):
        return x.t
    if isinstance(x, bool):
        return _intval(1 if x else 0)
    if isinstance(x, int):
        return _intval(x)
    return None


_MEMO: dict[tuple[int, int, int], Any] = {}
_OPS = {
    0: lambda a, b: a + b,
    1: lambda a, b: a - b,
    2: lambda a, b: a * b,
    3: lambda a, b: a < b,
    4: lambda a, b: a <= b,
    5: lambda a, b: a > b,
    6: lambda a, b: a >= b,
    7: lambda a, b: a == b,
    8: lambda a, b: a != b,
}


def _mk(op: int, a: Any, b: Any) -> Any:
    """Memoised term construction (terms are rebuilt identically on every re-execution)."""
    k = (op, a.get_id(), b.get_id())
    r = _MEMO.get(k)
    if r is None:
        r = _OPS[op](a, b)
        _MEMO[k] = (r, a, b)  # keep operands alive so ids are not reused
        return r
    return r[0]


class SymInt:
    __slots__ = ("t",)

    def __init__(self, t: Any):
        self.t = t

    # -- arithmetic ------------------------------------------------------------------
    def _bin(self, other: Any, op: int, swap: bool = False) -> Any:
        o = _term(other)
        if o is None:
            return NotImplemented
        return SymInt(_mk(op, o, self.t) if swap else _mk(op, self.t, o))

    def __add__(self, o: Any) -> Any:
        return self._bin(o, 0)

    def __radd__(self, o: Any) -> Any:
        return self._bin(o, 0, True)

    def __sub__(self, o: Any) -> Any:
        return self._bin(o, 1)

    def __rsub__(self, o: Any) -> Any:
        return self._bin(o, 1, True)

    def __mul__(self, o: Any) -> Any:
        if isinstance(o, (str, bytes, list, tuple)):
            raise HarnessError("sequence * SymInt (symbolic repetition) is not supported")
        return self._bin(o, 2)

    def __rmul__(self, o: Any) -> Any:
        if isinstance(o, (str, bytes, list, tuple)):
            raise HarnessError("sequence * SymInt (symbolic repetition) is not supported")
        return self._bin(o, 2, True)

    def __floordiv__(self, o: Any) -> Any:
        # z3 integer div is floor division for positive divisors; require a positive constant
        if not (isinstance(o, int) and o > 0):
            raise HarnessError("SymInt // non-positive-constant unsupported")
        return SymInt(self.t / z3.IntVal(o))

    def __mod__(self, o: Any) -> Any:
        if not (isinstance(o, int) and o > 0):
            raise HarnessError("SymInt % non-positive-constant unsupported")
        return SymInt(self.t % z3.IntVal(o))

    def __neg__(self) -> Any:
        return SymInt(-self.t)

    def __pos__(self) -> Any:
        return self

    def __abs__(self) -> Any:
        return SymInt(z3.If(self.t >= 0, self.t, -self.t))

    # -- comparisons -----------------------------------------------------------------
    def _cmp(self, other: Any, op: int) -> Any:
        o = _term(other)
        if o is None:
            return NotImplemented
        return SymBool(_mk(op, self.t, o))

    def __lt__(self, o: Any) -> Any:
        return self._cmp(o, 3)

    def __le__(self, o: Any) -> Any:
        return self._cmp(o, 4)

    def __gt__(self, o: Any) -> Any:
        return self._cmp(o, 5)

    def __ge__(self, o: Any) -> Any:
        return self._cmp(o, 6)

    def __eq__(self, o: Any) -> Any:  # type: ignore[override]
        t = _term(o)
        if t is None:
            return False
        return SymBool(_mk(7, self.t, t))

    def __ne__(self, o: Any) -> Any:  # type: ignore[override]
        t = _term(o)
        if t is None:
            return True
        return SymBool(_mk(8, self.t, t))

    def __bool__(self) -> bool:
        return bool(SymBool(self.t != 0))

    # -- fail closed -----------------------------------------------------------------
    def __index__(self) -> int:
        raise HarnessError(f"SymInt reached __index__ ({self.t}) - concretisation refused")

    def __int__(self) -> int:
        raise HarnessError(f"SymInt reached __int__ ({self.t}) - concretisation refused")

    def __hash__(self) -> int:  # type: ignore[override]
        raise HarnessError("SymInt reached __hash__ - concretisation refused")

    def __repr__(self) -> str:
        return f"SymInt({self.t})"

    __str__ = __repr__

    def __format__(self, spec: str) -> str:
        raise HarnessError("SymInt formatted into a string - concretisation refused")


class SymBool:
    __slots__ = ("t",)

    def __init__(self, t: Any):
        self.t = t

    def __bool__(self) -> bool:
        return _cur().decide(self.t)

    def __invert__(self) -> "SymBool":
        return SymBool(z3.Not(self.t))

    def __and__(self, o: Any) -> Any:
        if isinstance(o, SymBool):
            return SymBool(z3.And(self.t, o.t))
        if isinstance(o, bool):
            return self if o else False
        return NotImplemented

    __rand__ = __and__

    def __or__(self, o: Any) -> Any:
        if isinstance(o, SymBool):
            return SymBool(z3.Or(self.t, o.t))
        if isinstance(o, bool):
            return True if o else self
        return NotImplemented

    __ror__ = __or__

    def __eq__(self, o: Any) -> Any:  # type: ignore[override]
        if isinstance(o, SymBool):
            return SymBool(self.t == o.t)
        if isinstance(o, bool):
            return self if o else ~self
        return False

    def __hash__(self) -> int:  # type: ignore[override]
        raise HarnessError("SymBool reached __hash__")

    def __repr__(self) -> str:
        return f"SymBool({self.t})"


def term_of(x: Any) -> Any:
    """z3 term of a SymInt/SymBool/int/bool."""
    if isinstance(x, SymBool):
        return x.t
    if isinstance(x, bool):
        return z3.BoolVal(x)
    t = _term(x)
    if t is None:
        raise HarnessError(f"no z3 term for {x!r}")
    return t


# ------------------------------------------------------------------------------------------
# explorer
# ------------------------------------------------------------------------------------------


_CONSTS: dict[int, Any] = {}
_CONST_KEEP: list[Any] = []


@dataclass
class Decision:
    taken: bool
    has_alt: bool
    key: int      # z3 AST id (terms are hash-consed; `term` keeps the AST alive so ids stay comparable)
    term: Any
    neg: Any = None


@dataclass
class Violation:
    label: str
    model: dict[str, int]
    detail: Any = None


@dataclass
class PathResult:
    index: int
    pc: list[Any]
    ret: Any
    exc: BaseException | None
    violations: list[Violation]
    proved: int
    inconclusive: list[str]
    model: dict[str, int] | None = None
    notes: dict[str, Any] = field(default_factory=dict)


@dataclass
class Stats:
    paths: int = 0
    forks: int = 0
    queries: int = 0
    solver_s: float = 0.0
    proved: int = 0
    unknown: int = 0


class Explorer:
    """Depth-first exploration of every feasible decision trail of ``fn``."""

    def __init__(self, timeout_ms: int = 20000, max_paths: int = 200000):
        self.timeout_ms = timeout_ms
        self.max_paths = max_paths
        self.path_limit_s: float | None = None   # wall-clock limit for one path of the code under test (main thread only)
        self.stats = Stats()
        self.solver = z3.Solver()
        self.solver.set("timeout", timeout_ms)
        self.pre: list[Any] = []
        self._pre_ids: set[int] = set()
        self.pc: list[Any] = []
        self.trail: list[Decision] = []
        self.pos = 0
        self.model: Any = None
        self._vars: dict[str, Any] = {}
        self.solver_depth = 0
        self._base_dirty = True
        self._path_violations: list[Violation] = []
        self._path_proved = 0
        self._path_inconclusive: list[str] = []
        self.notes: dict[str, Any] = {}

    # -- variables -------------------------------------------------------------------
    def int(self, name: str, lo: int | None = None, hi: int | None = None) -> SymInt:
        """Symbolic integer; bounds become preconditions (asserted on every path)."""
        if name not in self._vars:
            v = z3.Int(name)
            self._vars[name] = v
            if lo is not None:
                self._assume_pre(v >= lo)
            if hi is not None:
                self._assume_pre(v <= hi)
        return SymInt(self._vars[name])

    def bool(self, name: str) -> SymBool:
        if name not in self._vars:
            self._vars[name] = z3.Bool(name)
        return SymBool(self._vars[name])

    def _assume_pre(self, t: Any) -> None:
        key = t.get_id()
        if key in self._pre_ids:
            return
        self._pre_ids.add(key)
        self.pre.append(t)
        self.solver.add(t)
        if self.solver_depth > 0:
            self._base_dirty = True  # added inside a decision frame: rebuild the base before the next path
        self.model = None

    def assume(self, cond: Any) -> None:
        """Precondition given by the harness (part of the claim's bound)."""
        self._assume_pre(term_of(cond))

    # -- solver helpers --------------------------------------------------------------
    def _check(self, *assumptions: Any) -> Any:
        t0 = time.perf_counter()
        r = self.solver.check(*assumptions)
        self.stats.solver_s += time.perf_counter() - t0
        self.stats.queries += 1
        if r == z3.unknown:
            self.stats.unknown += 1
        return r

    def _model_says(self, t: Any) -> bool | None:
        if self.model is None:
            return None
        v = self.model.eval(t, model_completion=True)
        if z3.is_true(v):
            return True
        if z3.is_false(v):
            return False
        return None

    # -- fork point ------------------------------------------------------------------
    def decide(self, t: Any) -> bool:
        key = t.get_id()
        cst = _CONSTS.get(key, 0)
        if cst == 0:
            cst = True if z3.is_true(t) else False if z3.is_false(t) else None
            _CONSTS[key] = cst
            _CONST_KEEP.append(t)
        if cst is not None:
            return cst
        if self.pos < _builtin_len(self.trail):
            d = self.trail[self.pos]
            if d.key != key:
                raise HarnessError(
                    f"non-deterministic re-execution at decision {self.pos}: {d.term} vs {t}"
                )
            if d.taken:
                c = d.term
            else:
                if d.neg is None:
                    d.neg = z3.Not(d.term)
                c = d.neg
            self._assert_decision(c)
            self.pos += 1
            return d.taken
        # new decision
        hint = self._model_says(t)
        model_true: Any = self.model if hint is True else None
        model_false: Any = self.model if hint is False else None
        can_true = hint is True
        can_false = hint is False
        if not can_true:
            r = self._check(t)
            if r == z3.unknown:
                raise Inconclusive(f"unknown on {t}")
            can_true = r == z3.sat
            if can_true:
                model_true = self.solver.model()
        if not can_true:
            can_false = True  # the path condition itself is satisfiable by construction
        elif not can_false:
            r = self._check(z3.Not(t))
            if r == z3.unknown:
                raise Inconclusive(f"unknown on not {t}")
            can_false = r == z3.sat
            if can_false:
                model_false = self.solver.model()
        if can_true and can_false:
            self.stats.forks += 1
            taken, has_alt = True, True
        elif can_true:
            taken, has_alt = True, False
        else:
            taken, has_alt = False, False
        self.trail.append(Decision(taken, has_alt, key, t))
        c = t if taken else z3.Not(t)
        self._assert_decision(c)
        self.pos += 1
        self.model = model_true if taken else model_false
        return taken

    def _assert_decision(self, c: Any) -> None:
        """Decision number self.pos: one solver frame per decision, shared by paths with a common prefix."""
        self.pc.append(c)
        if self.pos < self.solver_depth:
            return  # still asserted from the previous path (common prefix)
        self.solver.push()
        self.solver.add(c)
        self.solver_depth += 1
        if self.model is not None and self._model_says(c) is not True:
            self.model = None

    # -- assertions ------------------------------------------------------------------
    def prove(self, cond: Any, label: str, detail: Any = None) -> bool:
        """Is ``cond`` true for every assignment on the current path?  sat(pc & !cond) -> violation."""
        if isinstance(cond, bool):
            if cond:
                self._path_proved += 1
                return True
            m = self.current_model()
            self._path_violations.append(Violation(label, m, detail))
            return False
        t = term_of(cond)
        if z3.is_true(t):
            self._path_proved += 1
            self.stats.proved += 1
            return True
        r = self._check(z3.Not(t))
        if r == z3.unsat:
            self._path_proved += 1
            self.stats.proved += 1
            return True
        if r == z3.unknown:
            self._path_inconclusive.append(label)
            return True
        m = self._model_dict(self.solver.model())
        self._path_violations.append(Violation(label, m, detail))
        return False

    def feasible(self, cond: Any) -> bool:
        """sat(pc & cond)?  (used by vacuity twins)"""
        r = self._check(term_of(cond))
        if r == z3.unknown:
            raise Inconclusive("unknown in feasible()")
        return r == z3.sat

    def _model_dict(self, m: Any) -> dict[str, int]:
        out: dict[str, int] = {}
        for name, v in self._vars.items():
            val = m.eval(v, model_completion=True)
            if z3.is_int_value(val):
                out[name] = val.as_long()
            else:
                out[name] = 1 if z3.is_true(val) else 0
        return out

    def _on_alarm(self, _sig: int, _frm: Any) -> None:
        # the exploration of this case is abandoned (the trail may be mid-update); the decisions taken so far give a model
        model = None
        try:
            s = z3.Solver()
            s.set("timeout", 20000)
            for c in list(self.pre) + list(self.pc):
                s.add(c)
            if s.check() == z3.sat:
                model = self._model_dict(s.model())
        except Exception:  # noqa: BLE001
            model = None
        raise PathTimeout(f"a path did not return within {self.path_limit_s:g} s", model)

    def current_model(self) -> dict[str, int]:
        if self.model is None:
            r = self._check()
            if r != z3.sat:
                raise HarnessError(f"path condition not satisfiable ({r})")
            self.model = self.solver.model()
        return self._model_dict(self.model)

    # -- driver ----------------------------------------------------------------------
    def explore(self, fn: Callable[["Explorer"], Any], want_models: bool = True) -> list[PathResult]:
        global _CUR
        results: list[PathResult] = []
        self.trail = []
        self._base_dirty = True
        prev = _CUR
        _CUR = self
        try:
            while True:
                if _builtin_len(results) >= self.max_paths:
                    raise PathLimit(f"more than {self.max_paths} paths")
                if self._base_dirty or self.solver_depth > _builtin_len(self.trail):
                    # (re)build the base frame; happens on the first path and whenever a
                    # precondition was first declared below the base frame
                    self.solver.reset()
                    self.solver.set("timeout", self.timeout_ms)
                    for p in self.pre:
                        self.solver.add(p)
                    self.solver_depth = 0
                    self._base_dirty = False
                self.pc = []
                self.pos = 0
                self.model = None
                self._path_violations = []
                self._path_proved = 0
                self._path_inconclusive = []
                self.notes = {}
                exc: BaseException | None = None
                ret: Any = None
                try:
                    if self.path_limit_s:
                        signal.signal(signal.SIGALRM, self._on_alarm)
                        signal.setitimer(signal.ITIMER_REAL, self.path_limit_s)
                    try:
                        ret = fn(self)
                    finally:
                        if self.path_limit_s:
                            signal.setitimer(signal.ITIMER_REAL, 0)
                except Inconclusive as e:
                    self._path_inconclusive.append(str(e))
                except (HarnessError, PathLimit, KeyboardInterrupt, SystemExit):
                    raise
                except Exception as e:  # an exception escaping the code under test
                    exc = e
                if self.pos < _builtin_len(self.trail):
                    raise HarnessError("re-execution consumed fewer decisions than its trail")
                pr = PathResult(
                    index=_builtin_len(results),
                    pc=list(self.pc),
                    ret=ret,
                    exc=exc,
                    violations=self._path_violations,
                    proved=self._path_proved,
                    inconclusive=self._path_inconclusive,
                    notes=self.notes,
                )
                if want_models:
                    pr.model = self.current_model()
                results.append(pr)
                self.stats.paths += 1
                while self.trail and not self.trail[-1].has_alt:
                    self.trail.pop()
                if not self.trail:
                    break
                last = self.trail[-1]
                last.taken = not last.taken
                last.has_alt = False
                keep = _builtin_len(self.trail) - 1  # frames of decisions before the flipped one
                if self.solver_depth > keep:
                    self.solver.pop(self.solver_depth - keep)
                    self.solver_depth = keep
        finally:
            _CUR = prev
        return results

    def partition_complete(self, results: list[PathResult]) -> str:
        """pre & not(pc_1 | ... | pc_n) must be unsat: the explored paths cover every assignment."""
        s = z3.Solver()
        s.set("timeout", max(self.timeout_ms, 60000))
        for p in self.pre:
            s.add(p)
        s.add(z3.Not(z3.Or([z3.And(r.pc) if r.pc else z3.BoolVal(True) for r in results])))
        t0 = time.perf_counter()
        r = s.check()
        self.stats.solver_s += time.perf_counter() - t0
        self.stats.queries += 1
        return str(r)


# ------------------------------------------------------------------------------------------
# symbolic length of skeleton strings
# ------------------------------------------------------------------------------------------

TOK_RE = re.compile(r"q[a-z][a-z]|Q[A-Z][A-Z]")
"""Prose tokens are ``q[a-z]{2}`` (a word of [a-z] letters, symbolic length L>=1);
indent tokens are ``Q[A-Z]{2}`` (a run of spaces, symbolic length >=1)."""

_len_cache: dict[str, Any] = {}


def tok_var(tok: str) -> Any:
    return z3.Int("L_" + tok)


def sym_len(s: Any) -> Any:
    """Length of ``s`` with every token counted by its symbolic length.  Plain int when no token occurs."""
    if not isinstance(s, str):
        return _builtin_len(s)
    if "q" not in s and "Q" not in s:
        return _builtin_len(s)
    hit = _len_cache.get(s)
    if hit is not None:
        return SymInt(hit) if not isinstance(hit, int) else hit
    toks = TOK_RE.findall(s)
    if not toks:
        _len_cache[s] = _builtin_len(s)
        return _builtin_len(s)
    base = _builtin_len(s) - 3 * _builtin_len(toks)
    t: Any = z3.IntVal(base)
    for tk in toks:
        t = t + tok_var(tk)
    _len_cache[s] = t
    return SymInt(t)


def declare_tokens(ex: Explorer, text: str, min_len: dict[str, int] | None = None) -> list[str]:
    """Register the length variable of every token occurring in ``text`` with its lower bound."""
    toks = sorted(set(TOK_RE.findall(text)))
    for tk in toks:
        lo = (min_len or {}).get(tk, 1)
        ex.int("L_" + tk, lo=lo)
    return toks


def sentence_tokens(text: str) -> set[str]:
    """Tokens directly followed by sentence punctuation need L>=2 (the real heuristic wants two letters)."""
    return set(m.group(1) for m in re.finditer(r"(q[a-z][a-z])(?=['\"\u2019\u201d)]?[.?!])", text))


def instantiate(text: str, model: dict[str, int]) -> str:
    """Replace tokens by real words/spaces of the model's lengths (for replay on unpatched code)."""

    def rep(m: re.Match[str]) -> str:
        tk = m.group(0)
        n = model.get("L_" + tk)
        if n is None:
            raise HarnessError(f"no model value for token {tk}")
        if tk[0] == "Q":
            return " " * n
        # a distinct lowercase letter per token keeps word order observable; avoid 'q'
        letter = "abcdefghijklmnoprstuvwyz"[((ord(tk[1]) - 97) * 26 + (ord(tk[2]) - 97)) % 24]
        return letter * n

    return TOK_RE.sub(rep, text)


# ------------------------------------------------------------------------------------------
# injection into the live flowmark modules
# ------------------------------------------------------------------------------------------

_PATCHED = False

PATCH_MODULES = [
    "flowmark.linewrapping.text_wrapping",
    "flowmark.linewrapping.line_wrappers",
    "flowmark.linewrapping.text_filling",
    "flowmark.linewrapping.markdown_filling",
    "flowmark.linewrapping.sentence_split_regex",
    "flowmark.linewrapping.tag_handling",
    "flowmark.formats.flowmark_markdown",
    "flowmark.reformat_api",
]


# (iii) applies only where `len` is width arithmetic.  In the tag handling, renderer and sentence modules `len` is
# string/structure logic (slicing offsets, `len(str(num))`, child counts): making it symbolic there would make string
# indices symbolic and derail the concrete string computation (seen with a refactor that moved a slicing loop there).
GLOBAL_LEN_MODULES = {
    "flowmark.linewrapping.text_wrapping",
    "flowmark.linewrapping.line_wrappers",
    "flowmark.linewrapping.text_filling",
    "flowmark.linewrapping.markdown_filling",
    "flowmark.reformat_api",
}


def patch_flowmark() -> list[str]:
    """
    Make word lengths symbolic in the *imported, live* flowmark modules of this process:
      (i)  every function default that ``is`` the builtin ``len`` -> sym_len
      (ii) ``DEFAULT_LEN_FUNCTION`` attributes -> sym_len
      (iii) a module-global ``len = sym_len`` in every linewrapping/formats module, so a direct
            ``len(text)`` in width logic is symbolic too.
    Returns the list of patched sites (reported in evidence).
    """
    global _PATCHED
    import importlib
    import types

    sites: list[str] = []
    for name in PATCH_MODULES:
        try:
            mod = importlib.import_module(name)
        except ImportError:
            continue
        for attr, obj in list(vars(mod).items()):
            if isinstance(obj, types.FunctionType) and obj.__module__ == name:
                if obj.__defaults__ and any(d is _builtin_len for d in obj.__defaults__):
                    obj.__defaults__ = tuple(sym_len if d is _builtin_len else d for d in obj.__defaults__)
                    sites.append(f"{name}.{attr}.__defaults__")
                if obj.__kwdefaults__:
                    for k, d in list(obj.__kwdefaults__.items()):
                        if d is _builtin_len:
                            obj.__kwdefaults__[k] = sym_len
                            sites.append(f"{name}.{attr}.__kwdefaults__[{k}]")
            elif obj is _builtin_len:
                setattr(mod, attr, sym_len)
                sites.append(f"{name}.{attr}")
        if name in GLOBAL_LEN_MODULES and (not hasattr(mod, "len") or getattr(mod, "len") is _builtin_len):
            setattr(mod, "len", sym_len)
            sites.append(f"{name}.len")
    _PATCHED = True
    return sites
