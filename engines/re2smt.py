"""
re2smt: translate a *live compiled* Python `re` pattern object into a z3 regular-expression term by walking
`re._parser.parse(pattern.pattern, pattern.flags)`.

Supported: literals, character classes (ranges, negation, \\d \\s \\w as ASCII sets), `.`, `* + ? {m,n}` greedy or
lazy (language-equal), groups (capturing or not), alternation, `^`/`$`/`\\A`/`\\Z` at the ends of the pattern.
Refused (TranslationRefused, never silently dropped): back-references, look-arounds, `\\b`, conditional groups,
inline flags other than ASCII/DOTALL/MULTILINE(with anchors only at the ends), IGNORECASE.
The translation yields the language of *full matches* of the anchored body; `match_lang()` turns that into the
language accepted by `pattern.match(s)` (prefix match unless the pattern ends in `$`).
"""
from __future__ import annotations

import re
from typing import Any

import z3

try:  # Python 3.11+
    from re import _constants as C  # type: ignore[attr-defined]
    from re import _parser as P  # type: ignore[attr-defined]
except ImportError:  # pragma: no cover
    import sre_constants as C  # type: ignore[no-redef]
    import sre_parse as P  # type: ignore[no-redef]


class TranslationRefused(Exception):
    pass


_ASCII_DIGIT = [("0", "9")]
_ASCII_SPACE = [" ", "\t", "\n", "\r", "\x0b", "\x0c"]
_ASCII_WORD = [("a", "z"), ("A", "Z"), ("0", "9"), "_"]
ANY_CHAR = z3.AllChar(z3.ReSort(z3.StringSort()))


def _ch(c: int | str) -> Any:
    return z3.Re(z3.StringVal(chr(c) if isinstance(c, int) else c))


def _set(items: list[Any]) -> Any:
    parts = []
    for it in items:
        if isinstance(it, tuple):
            parts.append(z3.Range(z3.StringVal(it[0]), z3.StringVal(it[1])))
        else:
            parts.append(_ch(it))
    return parts[0] if len(parts) == 1 else z3.Union(*parts)


def _category(cat: Any) -> tuple[Any, bool]:
    name = str(cat)
    table = {
        "CATEGORY_DIGIT": (_ASCII_DIGIT, False), "CATEGORY_NOT_DIGIT": (_ASCII_DIGIT, True),
        "CATEGORY_SPACE": (_ASCII_SPACE, False), "CATEGORY_NOT_SPACE": (_ASCII_SPACE, True),
        "CATEGORY_WORD": (_ASCII_WORD, False), "CATEGORY_NOT_WORD": (_ASCII_WORD, True),
    }
    if name not in table:
        raise TranslationRefused(f"category {name}")
    items, neg = table[name]
    return _set(items), neg


def _class(items: list[Any]) -> Any:
    neg = False
    parts = []
    for op, av in items:
        if op is C.NEGATE:
            neg = True
        elif op is C.LITERAL:
            parts.append(_ch(av))
        elif op is C.RANGE:
            parts.append(z3.Range(z3.StringVal(chr(av[0])), z3.StringVal(chr(av[1]))))
        elif op is C.CATEGORY:
            r, n = _category(av)
            parts.append(z3.Intersect(ANY_CHAR, z3.Complement(r)) if n else r)
        else:
            raise TranslationRefused(f"class item {op}")
    r = parts[0] if len(parts) == 1 else z3.Union(*parts)
    if neg:
        r = z3.Intersect(ANY_CHAR, z3.Complement(r))
    return r


def _seq(items: list[Any], dotall: bool) -> Any:
    parts = [_node(op, av, dotall) for op, av in items]
    if not parts:
        return z3.Re(z3.StringVal(""))
    return parts[0] if len(parts) == 1 else z3.Concat(*parts)


def _node(op: Any, av: Any, dotall: bool) -> Any:
    if op is C.LITERAL:
        return _ch(av)
    if op is C.NOT_LITERAL:
        return z3.Intersect(ANY_CHAR, z3.Complement(_ch(av)))
    if op is C.ANY:
        return ANY_CHAR if dotall else z3.Intersect(ANY_CHAR, z3.Complement(_ch("\n")))
    if op is C.IN:
        return _class(av)
    if op is C.CATEGORY:
        r, n = _category(av)
        return z3.Intersect(ANY_CHAR, z3.Complement(r)) if n else r
    if op is C.SUBPATTERN:
        _gid, add_flags, del_flags, sub = av
        if add_flags or del_flags:
            raise TranslationRefused("inline flags in a group")
        return _seq(list(sub), dotall)
    if op is C.BRANCH:
        _none, alts = av
        rs = [_seq(list(a), dotall) for a in alts]
        return rs[0] if len(rs) == 1 else z3.Union(*rs)
    if op in (C.MAX_REPEAT, C.MIN_REPEAT) or str(op) == "POSSESSIVE_REPEAT":
        lo, hi, sub = av
        r = _seq(list(sub), dotall)
        if hi is C.MAXREPEAT:
            if lo == 0:
                return z3.Star(r)
            if lo == 1:
                return z3.Plus(r)
            return z3.Concat(z3.Loop(r, lo, lo), z3.Star(r))
        return z3.Loop(r, lo, hi)
    raise TranslationRefused(f"regex node {op}")


def translate(pat: "re.Pattern[str]") -> tuple[Any, bool, bool]:
    """-> (z3 regex of the body, anchored_at_start, anchored_at_end)"""
    flags = pat.flags
    if flags & re.IGNORECASE:
        raise TranslationRefused("IGNORECASE")
    tree = list(P.parse(pat.pattern, flags & ~re.UNICODE))
    a_start = a_end = False
    if tree and tree[0][0] is C.AT and str(tree[0][1]) in ("AT_BEGINNING", "AT_BEGINNING_STRING"):
        a_start = True
        tree = tree[1:]
    if tree and tree[-1][0] is C.AT and str(tree[-1][1]) in ("AT_END", "AT_END_STRING"):
        a_end = True
        tree = tree[:-1]
    for op, av in tree:
        if op is C.AT:
            raise TranslationRefused(f"anchor {av} inside the pattern")
    return _seq(tree, bool(flags & re.DOTALL)), a_start, a_end


def match_lang_tail(pat: "re.Pattern[str]") -> Any:
    """
    Like match_lang, for patterns whose last item is an alternation in which `$` appears as a whole alternative
    (pathspec's gitignore regexes end in `(?:(?P<ps_d>/)|$)`): language of s with pat.match(s) truthy =
    body . ( alt . anything  |  empty )   for the non-`$` / `$` alternatives of the tail.
    """
    flags = pat.flags
    tree = list(P.parse(pat.pattern, flags & ~re.UNICODE))
    dotall = bool(flags & re.DOTALL)
    any_ = z3.Star(ANY_CHAR)
    eps = z3.Re(z3.StringVal(""))
    if tree and tree[0][0] is C.AT and str(tree[0][1]) in ("AT_BEGINNING", "AT_BEGINNING_STRING"):
        tree = tree[1:]
        lead: Any = None
    else:
        lead = any_  # pattern.search(): the match may start anywhere
    tail = tree[-1] if tree else None

    def unwrap(node: Any) -> Any:
        op, av = node
        while op is C.SUBPATTERN and len(av[3]) == 1:
            op, av = av[3][0]
        return op, av

    if tail is not None:
        op, av = unwrap(tail)
        if op is C.BRANCH:
            alts = av[1]
            parts = []
            ok = True
            for a in alts:
                a = list(a)
                if len(a) == 1 and a[0][0] is C.AT and str(a[0][1]) in ("AT_END", "AT_END_STRING"):
                    parts.append(eps)
                elif any(x[0] is C.AT for x in a):
                    ok = False
                else:
                    parts.append(z3.Concat(_seq(a, dotall), any_))
            if ok:
                body = _seq(tree[:-1], dotall)
                r = z3.Concat(body, z3.Union(*parts)) if len(parts) > 1 else z3.Concat(body, parts[0])
                return z3.Concat(lead, r) if lead is not None else r
        if op is C.AT and str(av) in ("AT_END", "AT_END_STRING"):
            r = _seq(tree[:-1], dotall)
            return z3.Concat(lead, r) if lead is not None else r
    for op, av in tree:
        if op is C.AT:
            raise TranslationRefused("anchor inside the pattern")
    r = z3.Concat(_seq(tree, dotall), any_)
    return z3.Concat(lead, r) if lead is not None else r


def match_lang(pat: "re.Pattern[str]") -> Any:
    """Language of strings s for which pat.match(s) is truthy (`$` also matches before one trailing newline)."""
    body, _a_start, a_end = translate(pat)
    if a_end:
        return z3.Union(body, z3.Concat(body, _ch("\n")))
    return z3.Concat(body, z3.Star(ANY_CHAR))


def fullmatch_lang(pat: "re.Pattern[str]") -> Any:
    body, _s, _e = translate(pat)
    return body
