"""Second opinion: re-run z3 queries (as SMT-LIB 2.6 text from Solver.to_smt2()) in cvc5 and compare verdicts.
Each query runs in its own interpreter under a hard wall-clock limit (cvc5's own tlimit is not always honoured)."""
from __future__ import annotations

import os
import subprocess
import sys
import tempfile
from concurrent.futures import ThreadPoolExecutor
from typing import Any

_WORKER = r'''
import sys, cvc5
from cvc5 import InputParser, SymbolManager
smt = "(set-logic QF_SLIA)\n" + open(sys.argv[1]).read()
slv = cvc5.Solver()
slv.setOption("strings-exp", "true")
slv.setOption("tlimit", sys.argv[2])
sm = SymbolManager(slv.getTermManager()) if hasattr(slv, "getTermManager") else SymbolManager(slv)
p = InputParser(slv, sm)
p.setStringInput(cvc5.InputLanguage.SMT_LIB_2_6, smt, "q")
res = "unknown"
while True:
    cmd = p.nextCommand()
    if cmd.isNull():
        break
    out = str(cmd.invoke(slv, sm)).strip()
    if out in ("sat", "unsat", "unknown"):
        res = out
print("VERDICT", res)
'''


def cvc5_verdicts(smt_texts: list[str], timeout_s: int = 20, workers: int = 8) -> list[str]:
    """-> per query 'sat' | 'unsat' | 'unknown' | 'timeout' | 'unavailable'"""
    d = tempfile.mkdtemp(prefix="cvc5q_")

    def one(i_text: tuple[int, str]) -> str:
        i, text = i_text
        f = os.path.join(d, f"q{i}.smt2")
        open(f, "w").write(text)
        try:
            r = subprocess.run([sys.executable, "-c", _WORKER, f, str(timeout_s * 1000)], capture_output=True, text=True, timeout=timeout_s + 10)
        except subprocess.TimeoutExpired:
            return "timeout"
        for ln in r.stdout.splitlines():
            if ln.startswith("VERDICT "):
                return ln.split()[1]
        return "unavailable"

    try:
        with ThreadPoolExecutor(max_workers=workers) as ex:
            return list(ex.map(one, enumerate(smt_texts)))
    finally:
        import shutil

        shutil.rmtree(d, ignore_errors=True)
