"""
Generic driver for E-INT checks.

A check module provides
    run(env, case) -> JSON-able output
which calls the REAL flowmark code and states its obligations through ``env.prove``.  The same
function is executed
  * symbolically (SymEnv: token lengths / widths / columns are z3 integers, every feasible path
    explored, obligations decided by z3 per path), in forked workers with flowmark patched, and
  * concretely (ConcEnv: a solver model instantiated into real words and real ints, builtin
    ``len``) in fresh unpatched interpreters - for per-path validation and for confirming
    counterexamples before anything is reported.
"""
from __future__ import annotations

import builtins
import importlib
import os
import json
import random
import time
import traceback
from typing import Any

from engines import symlen as S


class SymEnv:
    symbolic = True

    def __init__(self, ex: S.Explorer):
        self.ex = ex

    def int(self, name: str, lo: int | None = None, hi: int | None = None) -> Any:
        return self.ex.int(name, lo, hi)

    def bool(self, name: str) -> Any:
        return self.ex.bool(name)

    def text(self, s: str, min_len: dict[str, int] | None = None) -> str:
        ml = {t: 2 for t in S.sentence_tokens(s)}
        ml.update(min_len or {})
        S.declare_tokens(self.ex, s, ml)
        return s

    def len(self, s: Any) -> Any:
        return S.sym_len(s)

    len_fn = staticmethod(S.sym_len)

    def prove(self, cond: Any, label: str, detail: Any = None) -> bool:
        return self.ex.prove(cond, label, detail)

    def assume(self, cond: Any) -> None:
        self.ex.assume(cond)

    def note(self, k: str, v: Any) -> None:
        self.ex.notes[k] = v


class ConcEnv:
    symbolic = False

    def __init__(self, model: dict[str, int]):
        self.model = model
        self.failed: list[dict[str, Any]] = []
        self.notes: dict[str, Any] = {}

    def int(self, name: str, lo: int | None = None, hi: int | None = None) -> int:
        if name not in self.model:
            raise KeyError(f"model has no value for {name}")
        return self.model[name]

    def bool(self, name: str) -> bool:
        if name not in self.model:
            raise KeyError(f"model has no value for {name}")
        return bool(self.model[name])

    def text(self, s: str, min_len: dict[str, int] | None = None) -> str:
        return S.instantiate(s, self.model)

    def len(self, s: Any) -> int:
        return builtins.len(s)

    len_fn = staticmethod(builtins.len)

    def prove(self, cond: Any, label: str, detail: Any = None) -> bool:
        if not cond:
            self.failed.append({"label": label, "detail": detail})
            return False
        return True

    def assume(self, cond: Any) -> None:
        if not cond:
            raise AssertionError("model violates a harness precondition")

    def note(self, k: str, v: Any) -> None:
        self.notes[k] = v


_HERE = __import__("os").path.dirname(__import__("os").path.dirname(__import__("os").path.abspath(__file__)))


def raised_in_harness(exc: BaseException) -> bool:
    """True if the innermost frame of the traceback is harness code (/verif), i.e. the harness - not flowmark - failed
    (an API it calls was renamed, a signature changed, ...).  Such an exception is a harness error, never a violation."""
    tb = exc.__traceback__
    last = None
    while tb is not None:
        last = tb
        tb = tb.tb_next
    if last is None:
        return True
    fn = last.tb_frame.f_code.co_filename
    return fn.startswith(_HERE)


def inst(obj: Any, model: dict[str, int]) -> Any:
    """instantiate tokens inside a JSON-able structure"""
    if isinstance(obj, str):
        return S.instantiate(obj, model)
    if isinstance(obj, (list, tuple)):
        return [inst(x, model) for x in obj]
    if isinstance(obj, dict):
        return {k: inst(v, model) for k, v in obj.items()}
    return obj


def jsonable(obj: Any) -> Any:
    return json.loads(json.dumps(obj, default=str))


# ------------------------------------------------------------------------------------------
# symbolic side (runs in forked workers)
# ------------------------------------------------------------------------------------------


def explore_case(module: str, case: dict[str, Any], sample_paths: int, rnd_seed: int, max_paths: int = 20000, timeout_ms: int = 20000) -> dict[str, Any]:
    mod = importlib.import_module(module)
    ex = S.Explorer(timeout_ms=timeout_ms, max_paths=max_paths)
    ex.path_limit_s = float(os.environ.get("VERIF_PATH_LIMIT_S", "300"))
    t0 = time.time()
    res: dict[str, Any] = {"key": case["key"], "case": case}
    try:
        paths = ex.explore(lambda e: mod.run(SymEnv(e), case))
        complete = ex.partition_complete(paths)
    except S.PathTimeout as e:
        res.update(status="timeout", error=str(e), model=e.model, paths=ex.stats.paths, queries=ex.stats.queries, solver_s=ex.stats.solver_s, wall_s=time.time() - t0)
        return res
    except S.PathLimit as e:
        res.update(status="pathlimit", error=str(e), paths=ex.stats.paths, queries=ex.stats.queries, solver_s=ex.stats.solver_s, wall_s=time.time() - t0)
        return res
    except S.HarnessError as e:
        res.update(status="harness", error=f"{e}\n{traceback.format_exc()[-1500:]}", paths=ex.stats.paths, queries=ex.stats.queries, solver_s=ex.stats.solver_s, wall_s=time.time() - t0)
        return res
    viols: list[dict[str, Any]] = []
    seen_labels: dict[str, int] = {}
    incon = 0
    excs: list[dict[str, Any]] = []
    for p in paths:
        incon += len(p.inconclusive)
        for v in p.violations:
            # keep at most 3 witnesses per label per case
            n = seen_labels.get(v.label, 0)
            seen_labels[v.label] = n + 1
            if n < 3:
                viols.append({"label": v.label, "model": v.model, "detail": jsonable(v.detail), "path": p.index})
        if p.exc is not None:
            if raised_in_harness(p.exc):
                res.update(status="harness", error=f"the harness itself raised {type(p.exc).__name__}: {p.exc} (flowmark API changed?)", paths=ex.stats.paths, queries=ex.stats.queries, solver_s=ex.stats.solver_s, wall_s=time.time() - t0)
                return res
            excs.append({"label": "exception:" + type(p.exc).__name__, "model": p.model, "detail": str(p.exc)[:300], "path": p.index})
    rnd = random.Random(rnd_seed)
    ok_paths = [p for p in paths if p.exc is None and not p.inconclusive]
    pick = ok_paths if len(ok_paths) <= sample_paths else rnd.sample(ok_paths, sample_paths)
    checks = [{"model": p.model, "out": jsonable(p.ret), "nviol": len(p.violations), "path": p.index} for p in pick]
    res.update(
        status="ok",
        paths=len(paths),
        forks=ex.stats.forks,
        queries=ex.stats.queries,
        solver_s=ex.stats.solver_s,
        proved=sum(p.proved for p in paths),
        inconclusive=incon,
        complete=complete,
        violations=viols,
        violating_paths=sum(1 for p in paths if p.violations),
        exceptions=excs[:3],
        exception_paths=len(excs),
        checks=checks,
        label_counts=seen_labels,
        wall_s=time.time() - t0,
    )
    return res


# ------------------------------------------------------------------------------------------
# concrete side (runs inside engines.replay_worker, unpatched)
# ------------------------------------------------------------------------------------------


def run_concrete(module: str, case: dict[str, Any], model: dict[str, int]) -> dict[str, Any]:
    mod = importlib.import_module(module)
    env = ConcEnv(model)
    try:
        out = mod.run(env, case)
        return {"out": jsonable(out), "failed": env.failed, "notes": jsonable(env.notes)}
    except Exception as e:  # noqa: BLE001
        return {"exc": f"{type(e).__name__}: {e}", "failed": env.failed, "tb": traceback.format_exc()[-1500:], "in_harness": raised_in_harness(e)}


# ------------------------------------------------------------------------------------------
# the whole check: explore all cases in parallel, validate, confirm, report
# ------------------------------------------------------------------------------------------


def _explore_job(job: tuple[str, dict[str, Any], int, int, int, int]) -> dict[str, Any]:
    module, case, sample_paths, rnd_seed, max_paths, timeout_ms = job
    return explore_case(module, case, sample_paths, rnd_seed, max_paths, timeout_ms)


def run_check(
    prop: str,
    module: str,
    cases: list[dict[str, Any]],
    ev: Any,
    key_fn: Any,
    sample_paths: int = 4,
    max_paths: int = 20000,
    timeout_ms: int = 20000,
    budget_s: float | None = None,
    what_fn: Any = None,
) -> tuple[list[Any], list[str]]:
    """
    Returns (findings, harness_errors) and fills `ev` (checks.common.Evidence).
    Twin cases (case["twin"] true) are vacuity witnesses: they MUST yield a confirmed violation.
    """
    from checks import common as C

    sites = S.patch_flowmark()
    ev.coverage.setdefault("patched_sites", sites)
    t0 = time.time()
    # longest-expected first so the pool does not end on a straggler
    order = sorted(range(len(cases)), key=lambda i: -float(cases[i].get("cost", 0)))
    jobs = [(module, cases[i], sample_paths, C.seed() * 1000003 + i, max_paths, timeout_ms) for i in order]
    results: list[dict[str, Any]] = []
    skipped = 0
    for r in C.parallel(_explore_job, jobs):
        results.append(r)
    harness: list[str] = []
    tot = dict(cases=len(cases), paths=0, forks=0, queries=0, solver_s=0.0, proved=0, inconclusive=0, pathlimit=0, violating_paths=0)
    replay_jobs: list[dict[str, Any]] = []
    meta: list[tuple[str, dict[str, Any], dict[str, Any]]] = []
    for r in results:
        tot["paths"] += r.get("paths", 0)
        tot["queries"] += r.get("queries", 0)
        tot["solver_s"] += r.get("solver_s", 0.0)
        if r["status"] == "harness":
            harness.append(f"{r['key']}: {r['error']}")
            continue
        if r["status"] == "timeout":
            # one path of the real code did not return while being explored: confirm on the unpatched code under the job limit
            if r.get("model") is not None:
                replay_jobs.append({"op": "case", "module": module, "case": r["case"], "model": r["model"]})
                meta.append(("timeout", r, {"model": r["model"], "path": None, "label": "terminates:returns-within-limit"}))
            else:
                harness.append(f"{r['key']}: {r['error']} (no model of the path)")
            continue
        if r["status"] == "pathlimit":
            tot["pathlimit"] += 1
            continue
        tot["forks"] += r["forks"]
        tot["proved"] += r["proved"]
        tot["inconclusive"] += r["inconclusive"]
        tot["violating_paths"] += r["violating_paths"]
        if r["complete"] != "unsat":
            harness.append(f"{r['key']}: partition completeness returned {r['complete']}")
        for c in r["checks"]:
            replay_jobs.append({"op": "case", "module": module, "case": r["case"], "model": c["model"]})
            meta.append(("validate", r, c))
        for v in r["violations"] + r["exceptions"]:
            replay_jobs.append({"op": "case", "module": module, "case": r["case"], "model": v["model"]})
            meta.append(("violation", r, v))
    explore_s = time.time() - t0
    t1 = time.time()
    rres = C.replay_batch(replay_jobs)
    validated = 0
    a1_notes: list[str] = []
    findings: list[Any] = []
    twin_confirmed: set[str] = set()
    for (kind, r, item), rr in zip(meta, rres):
        case = r["case"]
        if rr.get("timeout"):
            # the real code did not return on this model: for the termination property that is the violation itself,
            # anywhere else the obligations could not be evaluated (harness error, never a pass)
            if prop == "C12" and not case.get("twin"):
                v = {"label": "terminates:returns-within-limit", "model": item["model"], "detail": rr["exc"], "path": item.get("path")}
                findings.append(C.Finding(prop, key_fn(case, v["label"], v, rr), f"{v['label']} | case {case['key']} model={item['model']}: {rr['exc']}",
                                          {"op": "case", "module": module, "case": case, "model": item["model"], "label": v["label"]}))
            else:
                harness.append(f"{r['key']}: the code under replay did not return ({rr['exc']}) model={item['model']}")
            continue
        if kind == "timeout":
            harness.append(f"{r['key']}: {r['error']} during exploration, but the unpatched code returns on the same model {item['model']} (overloaded machine?)")
            continue
        if kind == "validate":
            want = inst(item["out"], item["model"])
            if rr.get("failed") and not item["nviol"] and not case.get("twin"):
                # The real code, run concretely on this path's model, breaks an obligation that the symbolic run
                # considered proved: content uniformity (A1) does not hold for this code, and the failure itself is
                # a reproduced violation on real code - report it (and keep the mismatch on record).
                for f in rr["failed"][:2]:
                    v = {"label": f["label"], "model": item["model"], "detail": f.get("detail"), "path": item["path"]}
                    key = key_fn(case, f["label"], v, rr)
                    what = what_fn(case, f["label"], v, rr) if what_fn else f"{f['label']} in case {case['key']} model={item['model']}"
                    findings.append(C.Finding(prop, key, what + " [found by concrete replay of a path model]", {"op": "case", "module": module, "case": case, "model": item["model"], "label": f["label"]}))
                a1_notes.append(f"{r['key']}: path {item['path']} model={item['model']}")
                continue
            if "exc" in rr:
                harness.append(f"{r['key']}: path {item['path']} validated to an exception on real code: {rr['exc']} model={item['model']}")
            elif rr["out"] != want:
                harness.append(f"{r['key']}: path {item['path']} output differs on real code (A1/A2): model={item['model']} sym={want!r} real={rr['out']!r}")
            elif rr["failed"] and not item["nviol"]:
                harness.append(f"{r['key']}: path {item['path']} verdict differs on real code: model={item['model']} sym_nviol={item['nviol']} real_failed={rr['failed']}")
            else:
                validated += 1
        else:
            label = item["label"]
            if label.startswith("exception:"):
                ok = "exc" in rr and rr["exc"].startswith(label.split(":", 1)[1]) and not rr.get("in_harness")
            else:
                ok = any(f["label"] == label for f in rr.get("failed", []))
            if not ok:
                harness.append(f"{r['key']}: counterexample for {label} did not reproduce on real code: model={item['model']} real={str(rr)[:400]}")
                continue
            if case.get("twin"):
                twin_confirmed.add(r["key"])
                continue
            conc = rr
            key = key_fn(case, label, item, conc)
            what = what_fn(case, label, item, conc) if what_fn else f"{label} in case {case['key']} model={item['model']}"
            findings.append(C.Finding(prop, key, what, {"op": "case", "module": module, "case": case, "model": item["model"], "label": label}))
    for r in results:
        if r["case"].get("twin") and r["status"] == "ok" and r["key"] not in twin_confirmed:
            harness.append(f"vacuity twin {r['key']} produced no confirmed violation")
    ntwins = sum(1 for c in cases if c.get("twin"))
    ev.add(
        states=tot["paths"],
        transitions=tot["forks"],
        traces_validated_against_impl=validated,
        cases=tot["cases"],
        solver_queries=tot["queries"],
        solver_s=round(tot["solver_s"], 2),
        obligations_proved=tot["proved"],
        obligations_inconclusive=tot["inconclusive"],
        cases_over_path_limit=tot["pathlimit"],
        violating_paths=tot["violating_paths"],
        partition_completeness_unsat=sum(1 for r in results if r.get("complete") == "unsat"),
        vacuity_twins=ntwins,
        vacuity_twins_confirmed=len(twin_confirmed),
        explore_wall_s=round(explore_s, 1),
        replay_wall_s=round(time.time() - t1, 1),
        replayed=len(replay_jobs),
        concrete_only_violations=len(a1_notes),
    )
    for r in results[:3]:
        if r["status"] == "ok" and r["checks"]:
            ev.sample({"case": r["case"], "paths": r["paths"], "queries": r["queries"], "path_model": r["checks"][0]["model"], "path_output": r["checks"][0]["out"]})
    return findings, harness
