"""Dev-time tool: evaluate seeded mutants. usage: tools_seed.py <seed_dir> <PROP> <name> [extra check ids...]
Applies the patch to /repo, runs the repo test suite, the demo, and ./vcheck for the property (quick), reverts."""
import json, os, shutil, subprocess, sys, time

seed, prop, name = sys.argv[1], sys.argv[2], sys.argv[3]
checks = [prop] + sys.argv[4:]
REPO = os.environ.get("SEED_REPO", "/repo")
out = {"property": prop, "name": name, "source": seed}

def sh(cmd, **kw):
    return subprocess.run(cmd, shell=True, capture_output=True, text=True, **kw)

assert sh(f"git -C {REPO} status --porcelain -- src").stdout.strip() == "", "repo not clean"
env = dict(os.environ, PYTHONPATH=f"{REPO}/src")
r = sh(f"cd {REPO} && /venv/bin/python {seed}/demo.py", env=env)
out["demo_clean"] = {"rc": r.returncode, "tail": (r.stdout + r.stderr)[-300:]}
r = sh(f"git -C {REPO} apply --check {seed}/patch.diff")
if r.returncode != 0:
    out["apply"] = "conflict: " + r.stderr[-300:]
    print(json.dumps(out, indent=1)); sys.exit(2)
sh(f"git -C {REPO} apply {seed}/patch.diff")
try:
    r = sh(f"cd {REPO} && /venv/bin/python -m pytest -q -p no:cacheprovider 2>&1 | tail -1")
    out["tests_mutated"] = r.stdout.strip()
    r = sh(f"cd {REPO} && /venv/bin/python {seed}/demo.py", env=env)
    out["demo_mutated"] = {"rc": r.returncode, "tail": (r.stdout + r.stderr)[-300:]}
    out["checks"] = {}
    for c in checks:
        t = time.time()
        r = sh(f"cd /verif && ./vcheck {c} --tier quick", env=(env if REPO != "/repo" else None))
        viol = [l[:300] for l in r.stdout.splitlines() if l.startswith("VIOLATION")]
        out["checks"][c] = {"rc": r.returncode, "violations": len(viol), "first": viol[:3], "harness": [l[:300] for l in r.stderr.splitlines() if "HARNESS" in l][:3], "wall_s": round(time.time() - t, 1)}
finally:
    sh(f"git -C {REPO} checkout -- . && rm -f {REPO}/tests/testdocs/testdoc.actual.*")
dst = f"/verif/seeded/{name}" if name.startswith(prop + "-") else f"/verif/seeded/{prop}-{name}"
os.makedirs(dst, exist_ok=True)
shutil.copy(f"{seed}/patch.diff", dst); shutil.copy(f"{seed}/demo.py", dst)
if os.path.exists(f"{seed}/notes.txt"):
    out["notes"] = open(f"{seed}/notes.txt").read()[:1500]
json.dump(out, open(f"{dst}/eval.json", "w"), indent=1)
print(json.dumps({k: v for k, v in out.items() if k != "notes"}, indent=1))
