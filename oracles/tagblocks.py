"""
Reference for flowmark's one deliberate re-reading of the *input*: a template tag / HTML comment standing
alone on an unindented line is a block boundary, so a list or table line directly next to it is separated
from it by a blank line before the document is read (property C06, last sentence).  Written independently
of tag_handling.preprocess_tag_block_spacing.
"""
from __future__ import annotations

import re

_OPEN = ("{%", "{#", "{{", "<!--")
_CLOSE = ("%}", "#}", "}}", "-->")
_LIST = re.compile(r"(?:[-*+]|[0-9]{1,9}[.)])[ \t]")


def tag_only(line: str) -> bool:
    if not line or line[0] in " \t":
        return False
    s = line.strip()
    return s.startswith(_OPEN) and s.endswith(_CLOSE)


def blockish(line: str) -> bool:
    s = line.lstrip()
    return s.startswith("|") or bool(_LIST.match(s))


def separate_tag_blocks(text: str) -> str:
    lines = text.split("\n")
    if not any(tag_only(ln) for ln in lines):
        return text
    out: list[str] = []
    for i, ln in enumerate(lines):
        if i > 0 and lines[i - 1].strip():
            prev = lines[i - 1]
            # the block above a tag line may span several lines (a list item with continuation lines)
            block_above = False
            for k in range(i - 1, -1, -1):
                if not lines[k].strip() or tag_only(lines[k]):
                    break
                if blockish(lines[k]):
                    block_above = True
                    break
            if (tag_only(prev) and blockish(ln)) or (block_above and tag_only(ln)):
                out.append("")
        out.append(ln)
    return "\n".join(out)
