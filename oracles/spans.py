"""
Literal (non-prose) spans of a Markdown document, in document order - the same extractor is applied to the
input and to the output (C04).  Reader: flowmark's Marko configuration for block/inline structure, plus a
regex for template tags inside text (Marko sees those as text).
Each span is (kind, payload...) with whitespace runs collapsed for spans that may be reflowed with their
paragraph (code spans, tags, comments, inline HTML); code block lines, info strings, destinations, titles
and labels are exact.
"""
from __future__ import annotations

import re
from typing import Any

_WS = re.compile(r"\s+")
_TAG = re.compile(r"\{%.*?%\}|\{#.*?#\}|\{\{.*?\}\}", re.S)


def _ws(s: str) -> str:
    return _WS.sub(" ", s)


def _inline(children: Any, out: list[Any]) -> None:
    from marko import inline
    from marko.ext import footnote
    from marko.ext.gfm import elements as gfm

    if isinstance(children, str):
        return
    buf: list[str] = []

    def flush() -> None:
        if buf:
            text = "".join(buf)
            for m in _TAG.finditer(text):
                out.append(("tag", _ws(m.group(0))))
            buf.clear()

    for ch in children:
        if isinstance(ch, (inline.RawText, inline.Literal)):
            buf.append(ch.children if isinstance(ch, inline.RawText) else "\\" + ch.children)
        elif isinstance(ch, inline.LineBreak):
            buf.append(" ")
        else:
            if isinstance(ch, inline.InlineHTML):
                # a comment or html tag can be part of a template construct only as text; flush first
                flush()
                out.append(("html", _ws(ch.children)))
            elif isinstance(ch, inline.CodeSpan):
                flush()
                out.append(("codespan", _ws(ch.children)))
            elif isinstance(ch, gfm.Url):
                flush()
                out.append(("url", ch.dest))
            elif isinstance(ch, inline.AutoLink):
                flush()
                out.append(("autolink", ch.dest))
            elif isinstance(ch, inline.Image):
                flush()
                out.append(("image", ch.dest, ch.title or None))
                _inline(ch.children, out)
            elif isinstance(ch, inline.Link):
                flush()
                out.append(("link", ch.dest, ch.title or None))
                _inline(ch.children, out)
            elif isinstance(ch, footnote.FootnoteRef):
                flush()
                out.append(("fnref", ch.label))
            else:
                kids = getattr(ch, "children", None)
                if isinstance(kids, list):
                    # emphasis etc.: text continues through it for tag detection purposes
                    flush()
                    _inline(kids, out)
    flush()


def _blocks(children: Any, out: list[Any]) -> None:
    from marko import block
    from marko.ext import footnote
    from marko.ext.gfm import elements as gfm

    for ch in children:
        if isinstance(ch, (block.FencedCode, block.CodeBlock)):
            out.append(("codeblock", getattr(ch, "lang", "") or "", getattr(ch, "extra", "") or "", tuple(ch.children[0].children.rstrip("\n").split("\n"))))
        elif isinstance(ch, block.LinkRefDef):
            t = ch.title
            if t and len(t) >= 2 and t[0] in "\"'(":
                from marko import inline as _inl

                t = _inl.Literal.strip_backslash(t[1:-1])
            out.append(("refdef", ch.label, ch.dest, t or None))
        elif isinstance(ch, footnote.FootnoteDef):
            out.append(("fndef", ch.label))
            _blocks(ch.children, out)
        elif isinstance(ch, (block.Paragraph, block.Heading, block.SetextHeading, gfm.TableCell)):
            _inline(ch.children, out)
        elif isinstance(ch, block.HTMLBlock):
            out.append(("htmlblock", ch.body))
        else:
            kids = getattr(ch, "children", None)
            if isinstance(kids, list):
                _blocks(kids, out)


def literal_spans(text: str) -> list[Any]:
    from flowmark.formats.flowmark_markdown import flowmark_markdown

    doc = flowmark_markdown().parse(text)
    out: list[Any] = []
    _blocks(doc.children, out)
    return out
