"""
Reference reading of a wrapped paragraph: which words ended up on which output line.

Independent of flowmark's splitter and escaper: the caller supplies the word sequence the
paragraph was *built from* (each word atomic by construction) and the set of positions after
which a kept newline (hard break / tag newline) must occur.  The matcher accepts, for the first
word of a continuation line only, one extra backslash anywhere inside the word (the line-start
escape the property allows).
"""
from __future__ import annotations

from dataclasses import dataclass
from typing import Any


@dataclass
class LineInfo:
    first: int          # index of first word on the line
    last: int           # index of last word on the line
    body: str           # the line without its indent (including a trailing hard-break backslash)
    indent: str
    hard_break: bool    # line ends with the hard-break backslash
    escaped: bool       # first word carries a line-start escape


class Mismatch(Exception):
    def __init__(self, kind: str, msg: str):
        super().__init__(msg)
        self.kind = kind


def _match_word(rest: str, pos: int, w: str, allow_escape: bool) -> tuple[int, bool] | None:
    if rest.startswith(w, pos):
        return pos + len(w), False
    if allow_escape:
        seg = rest[pos : pos + len(w) + 1]
        for i, ch in enumerate(seg):
            if ch == "\\" and seg[:i] + seg[i + 1 :] == w:
                return pos + len(w) + 1, True
    return None


def read_lines(
    words: list[str],
    lines: list[str],
    first_indent: str,
    next_indent: str,
    breaks_after: dict[int, str] | None = None,
    glued_after: set[int] | None = None,
) -> list[LineInfo]:
    """
    breaks_after: {word index: "hard" | "soft"} - a newline is required after that word;
    "hard" additionally requires the trailing backslash.
    glued_after: indices i whose word is directly adjacent to word i+1 in the source (no space): in the output the
    two are adjacent or on different lines, never separated by a space.
    """
    breaks_after = breaks_after or {}
    glued_after = glued_after or set()
    infos: list[LineInfo] = []
    p = 0
    for li, line in enumerate(lines):
        indent = first_indent if li == 0 else next_indent
        if not line.startswith(indent):
            raise Mismatch("indent", f"line {li} {line!r} does not start with indent {indent!r}")
        rest = line[len(indent) :]
        if rest != rest.strip(" ") or not rest:
            # allow nothing: a wrapped line never has stray spaces or is empty
            raise Mismatch("spacing", f"line {li} {line!r}: empty or padded body")
        pos = 0
        first = p
        escaped = False
        hard = False
        while True:
            if p >= len(words):
                raise Mismatch("words", f"line {li}: extra text {rest[pos:]!r} after the last word")
            m = _match_word(rest, pos, words[p], allow_escape=(li > 0 and p == first))
            if m is None:
                raise Mismatch("words", f"line {li}: expected word {words[p]!r} at {rest[pos:]!r}")
            pos, esc = m
            escaped = escaped or esc
            p += 1
            need = breaks_after.get(p - 1)
            if pos == len(rest):
                if need == "hard":
                    raise Mismatch("hardbreak", f"line {li}: hard break after {words[p-1]!r} lost")
                break
            if rest[pos:] == "\\" and need == "hard":
                hard = True
                break
            if need:
                raise Mismatch("keptnewline", f"line {li}: kept newline after {words[p-1]!r} lost")
            if (p - 1) in glued_after:
                if rest[pos] == " ":
                    raise Mismatch("adjacency", f"line {li}: a space appeared between adjacent {words[p-1]!r} and {words[p]!r}")
                continue  # adjacent on the same line: no separator
            if rest[pos] != " " or rest.startswith("  ", pos):
                raise Mismatch("words", f"line {li}: bad separator at {rest[pos:]!r} after {words[p-1]!r}")
            pos += 1
        infos.append(LineInfo(first, p - 1, rest, indent, hard, escaped))
    if p != len(words):
        raise Mismatch("words", f"words from {words[p]!r} on are missing")
    return infos


def prove_wrap(
    ex: Any,
    sym_len: Any,
    infos: list[LineInfo],
    words: list[str],
    W: Any,
    first_off: Any,
    next_off: Any,
    fill: bool,
    breaks_after: dict[int, str] | None = None,
    tag: str = "",
    sentence_ends: set[int] | None = None,
    glued_after: set[int] | None = None,
) -> None:
    """
    Integer obligations, decided by z3 on the current path:
      width-bound: a line with >= 2 words is no longer than W
      maximal    : (fill mode) for every soft break the next word would not have fit
    `first_off`/`next_off`: columns occupied before the body of the first / other lines
    (the indent length when indents are part of the line).
    """
    breaks_after = breaks_after or {}
    for i, inf in enumerate(infos):
        off = first_off if i == 0 else next_off
        total = off + sym_len(inf.body)
        if inf.last > inf.first:
            fits = (W <= 0) | (total <= W)
            # Two narrowly described causes are separated *symbolically* so that each gets its own
            # obligation (and its own finding key); everything else falls under plain "width-bound".
            #  A: the paragraph's first word does not even fit after the first-line prefix
            #  B: the line ends in a kept hard-break backslash and is exactly one column over
            #  C: (semantic mode) the line is a merge of a short sentence tail with the next sentence
            #     and is over by at most its own indent + 1
            cause_a = (first_off + sym_len(words[0]) > W) if i == 0 else False
            cause_b = (total - 1 <= W) if inf.hard_break else False
            merged = bool(sentence_ends) and any(k in sentence_ends for k in range(inf.first, inf.last))
            cause_c = (total <= W + off + 1) if merged else False
            ex.prove(fits | cause_a | cause_b | cause_c, f"{tag}width-bound", {"line": i, "body": inf.body})
            if merged:
                ex.prove(fits | _not(cause_c) | cause_a, f"{tag}width-bound:semantic-merge", {"line": i, "body": inf.body})
            if i == 0:
                ex.prove(fits | _not(cause_a), f"{tag}width-bound:first-word-does-not-fit", {"line": i, "body": inf.body})
            if inf.hard_break:
                ex.prove(fits | _not(cause_b) | cause_a, f"{tag}width-bound:hard-break-backslash", {"line": i, "body": inf.body})
        if fill and i + 1 < len(infos) and inf.last not in breaks_after:
            nxt = words[inf.last + 1]
            # adjacent tags are tokenized with a temporary space that is removed afterwards: the filler counted one
            # column per such pair on this line (cause E, separately keyed)
            k = len([g for g in (glued_after or ()) if inf.first <= g < inf.last])
            ex.prove(total + k + 1 + sym_len(nxt) > W, f"{tag}maximal", {"line": i, "body": inf.body, "next": nxt})
            if k:
                ex.prove(total + 1 + sym_len(nxt) > W, f"{tag}maximal:adjacent-tags-counted-with-space", {"line": i, "body": inf.body, "next": nxt})


def _not(c: Any) -> Any:
    if isinstance(c, bool):
        return not c
    return ~c
