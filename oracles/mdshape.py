"""
shape(x): normal form of the Markdown document x as read by flowmark's own parser
(flowmark_markdown().parse), used by C01/C03/C04/C10 as "same document".

Normal form = nested tuples:
  blocks (type + the attributes the property names) in order and nesting,
  inlines (emphasis kinds, links/images with dest+title, code spans, autolinks, hard breaks,
  raw HTML, footnote refs) with adjacent text merged, escapes resolved, soft breaks = space,
  whitespace runs collapsed, Pangu CJK/Latin spacing applied, bullet char / fence style ignored.

A second, independent reader (markdown-it-py, when importable) gives `shape_mdit` - a coarser
block-level normal form used only at replay time as a cross-check of the reader itself.
"""
from __future__ import annotations

import re
from typing import Any

_WS = re.compile(r"\s+")


def _parser():
    from flowmark.formats.flowmark_markdown import flowmark_markdown

    return flowmark_markdown()


def _pangu(s: str) -> str:
    from marko.ext.pangu import PANGU_RE

    return re.sub(PANGU_RE, " ", s)


def _norm_text(s: str) -> str:
    return _WS.sub(" ", _pangu(s))


def _inlines(children: Any, keep_code_ws: bool = False) -> tuple:
    """Normalise a list of inline elements."""
    from marko import inline
    from marko.ext import footnote
    from marko.ext.gfm import elements as gfm

    out: list[Any] = []

    def text(s: str) -> None:
        if out and isinstance(out[-1], str):
            out[-1] += s
        else:
            out.append(s)

    if isinstance(children, str):
        text(children)
        children = []
    for ch in children:
        if isinstance(ch, gfm.Url):
            out.append(("url", ch.dest))
        elif isinstance(ch, inline.AutoLink):
            out.append(("autolink", ch.dest))
        elif isinstance(ch, inline.RawText):
            text(ch.children)
        elif isinstance(ch, inline.Literal):
            text(ch.children)
        elif isinstance(ch, inline.LineBreak):
            if ch.soft:
                text(" ")
            else:
                out.append(("br",))
        elif isinstance(ch, inline.CodeSpan):
            c = ch.children
            out.append(("code", c if keep_code_ws else _WS.sub(" ", c)))
        elif isinstance(ch, inline.InlineHTML):
            out.append(("html", _WS.sub(" ", ch.children)))
        elif isinstance(ch, inline.StrongEmphasis):
            out.append(("strong", _inlines(ch.children)))
        elif isinstance(ch, inline.Emphasis):
            out.append(("em", _inlines(ch.children)))
        elif isinstance(ch, gfm.Strikethrough):
            out.append(("del", _inlines(ch.children)))
        elif isinstance(ch, inline.Image):
            out.append(("image", ch.dest, ch.title or None, _inlines(ch.children)))
        elif isinstance(ch, inline.Link):
            out.append(("link", ch.dest, ch.title or None, _inlines(ch.children)))
        elif isinstance(ch, footnote.FootnoteRef):
            out.append(("fnref", ch.label))
        else:
            kids = getattr(ch, "children", None)
            out.append((type(ch).__name__, _inlines(kids) if isinstance(kids, list) else kids))
    # normalise text pieces: collapse whitespace, strip at both ends of the inline run,
    # drop empty text
    res: list[Any] = []
    for i, it in enumerate(out):
        if isinstance(it, str):
            s = _norm_text(it)
            # whitespace directly around a hard break is not significant
            if i + 1 < len(out) and out[i + 1] == ("br",):
                s = s.rstrip()
            if i > 0 and out[i - 1] == ("br",):
                s = s.lstrip()
            if i == 0:
                s = s.lstrip()
            if i == len(out) - 1:
                s = s.rstrip()
            if s:
                res.append(s)
        else:
            res.append(it)
    return tuple(res)


_WITH_TIGHT = False


def _blocks(children: Any) -> tuple:
    from marko import block
    from marko.ext import footnote
    from marko.ext.gfm import elements as gfm

    out: list[Any] = []
    for ch in children:
        if isinstance(ch, block.BlankLine):
            continue
        if isinstance(ch, (block.Heading, block.SetextHeading)):
            out.append(("heading", ch.level, _inlines(ch.children)))
        elif isinstance(ch, block.Paragraph):
            checked = getattr(ch, "checked", None)
            if checked is None:
                out.append(("para", _inlines(ch.children)))
            else:
                out.append(("para", ("task", bool(checked)), _inlines(ch.children)))
        elif isinstance(ch, block.List):
            out.append(
                (
                    "list",
                    "ordered" if ch.ordered else "bullet",
                    ch.start if ch.ordered else None,
                    tuple(("item", _blocks(it.children)) for it in ch.children),
                )
                + ((("tight" if ch.tight else "loose"),) if _WITH_TIGHT else ())
            )
        elif isinstance(ch, gfm.Alert):
            out.append(("alert", ch.alert_type, _blocks(ch.children)))
        elif isinstance(ch, block.Quote):
            out.append(("quote", _blocks(ch.children)))
        elif isinstance(ch, (block.FencedCode, block.CodeBlock)):
            lang = getattr(ch, "lang", "") or ""
            extra = getattr(ch, "extra", "") or ""
            content = ch.children[0].children
            # trailing newlines of the content are not significant (normalised by the renderer)
            out.append(("code", lang, extra, content.rstrip("\n")))
        elif isinstance(ch, block.ThematicBreak):
            out.append(("rule",))
        elif isinstance(ch, block.LinkRefDef):
            out.append(("refdef", ch.label, ch.dest, _title(ch.title)))
        elif isinstance(ch, footnote.FootnoteDef):
            out.append(("footnote", ch.label, _blocks(ch.children)))
        elif isinstance(ch, gfm.Table):
            aligns = tuple(
                ("c" if d.startswith(":") and d.endswith(":") else "l" if d.startswith(":") else "r" if d.endswith(":") else "")
                for d in ch.delimiters
            )
            rows = tuple(tuple(_inlines(c.children) for c in row.children) for row in ch.children)
            out.append(("table", aligns, rows))
        elif isinstance(ch, block.HTMLBlock):
            out.append(("htmlblock", ch.body))
        else:
            kids = getattr(ch, "children", None)
            out.append((type(ch).__name__, _blocks(kids) if isinstance(kids, list) else kids))
    return tuple(out)


def _title(t: Any) -> Any:
    if not t:
        return None
    # LinkRefDef keeps the title with its quotes; Link strips them. Normalise to the unquoted text.
    from marko import inline

    if len(t) >= 2 and t[0] == t[-1] and t[0] in "\"'":
        t = t[1:-1]
    elif len(t) >= 2 and t[0] == "(" and t[-1] == ")":
        t = t[1:-1]
    return inline.Literal.strip_backslash(t)


def shape(text: str, with_tight: bool = False) -> tuple:
    global _WITH_TIGHT
    doc = _parser().parse(text)
    _WITH_TIGHT = with_tight
    try:
        return ("doc", _blocks(doc.children))
    finally:
        _WITH_TIGHT = False


def first_diff(a: Any, b: Any, path: str = "") -> str:
    """Human-readable location of the first difference between two shapes."""
    if type(a) != type(b):
        return f"{path}: {a!r} != {b!r}"
    if isinstance(a, tuple):
        if len(a) != len(b):
            for i in range(min(len(a), len(b))):
                if a[i] != b[i]:
                    return first_diff(a[i], b[i], f"{path}/{i}")
            return f"{path}: length {len(a)} != {len(b)}: {a[min(len(a), len(b)):]!r} vs {b[min(len(a), len(b)):]!r}"
        for i, (x, y) in enumerate(zip(a, b)):
            if x != y:
                return first_diff(x, y, f"{path}/{i}")
        return ""
    return "" if a == b else f"{path}: {a!r} != {b!r}"


def kind_of_diff(a: Any, b: Any) -> str:
    """Coarse normal form of a shape difference: which block types appear/disappear."""

    def kinds(s: Any, acc: list[str]) -> list[str]:
        if isinstance(s, tuple):
            if s and isinstance(s[0], str) and s[0] in (
                "heading", "para", "list", "item", "alert", "quote", "code", "rule", "refdef",
                "footnote", "table", "htmlblock", "br", "strong", "em", "del", "image", "link",
                "url", "autolink", "html", "fnref",
            ):
                tag = s[0]
                if tag == "heading":
                    tag = f"heading{s[1]}"
                acc.append(tag)
            for x in s:
                kinds(x, acc)
        return acc

    from collections import Counter

    ka, kb = Counter(kinds(a, [])), Counter(kinds(b, []))
    gained = sorted((kb - ka).elements())
    lost = sorted((ka - kb).elements())
    if not gained and not lost:
        return "same-kinds:text-or-attr"
    return "+" + ",".join(gained) + "/-" + ",".join(lost)


# ------------------------------------------------------------------------------------------
# independent reader (markdown-it-py): coarse block-level shape, used at replay time only
# ------------------------------------------------------------------------------------------


def shape_mdit(text: str) -> tuple | None:
    try:
        from markdown_it import MarkdownIt
    except Exception:
        return None
    md = MarkdownIt("commonmark").enable("table").enable("strikethrough")
    toks = md.parse(text)
    out: list[Any] = []
    for t in toks:
        if t.type.endswith("_close") or t.type == "inline":
            if t.type == "inline":
                out.append(("text", _WS.sub(" ", "".join(c.content if c.type in ("text", "code_inline") else (" " if c.type == "softbreak" else "") for c in (t.children or []))).strip()))
            continue
        if t.type in ("fence", "code_block"):
            out.append(("code", t.info.strip(), t.content.rstrip("\n")))
        elif t.type == "hr":
            out.append(("rule",))
        elif t.type == "heading_open":
            out.append(("heading", int(t.tag[1])))
        elif t.type == "ordered_list_open":
            out.append(("ol", t.attrs.get("start", 1)))
        else:
            out.append((t.type,))
    return tuple(out)
