def fill(chk, NA):
    A12 = ("Assumes A1 (a token behaves like any [a-z]+ word of its length except through len) and A2 (sym_len == len on instantiation), both validated on sampled paths of every case by replaying "
           "the path's z3 model on unpatched code in a fresh interpreter; z3 and Marko (as the reader) are trusted. Everything outside the listed skeleton families is outside the claim.")
    chk("C01", "model_checking",
        "Bounded symbolic model checking of the whole real pipeline: for every document skeleton (paragraph with a block-start / atomic word at every position in every container, hard breaks, "
        "tag newlines, ~50 block-level skeletons) all word lengths and the width are unbounded z3 integers; every feasible break layout is a path and shape(out)==shape(in) is checked on each. "
        "This is the property's own dependence ('whether a hazard lands at a line start depends on the text before it and the width') handed to the solver.",
        A12, "dynamic symbolic execution (symlen over z3 LIA) of reformat_text + per-path re-parse + model replay", "DESIGN.md §3 C01")
    chk("C02", "model_checking",
        "Same engine; reformat_text is run twice on every feasible path (pass 2 on pass 1's output under the same path condition): z3 proves pass 2 cannot re-break or yields lengths/width that do. "
        "Skeleton families x both modes x option sets (covering array quick / all 24 thorough) + plaintext + frontmatter + typography.",
        A12, "dynamic symbolic execution of two composed runs per path; byte equality per path", "DESIGN.md §3 C02")
    chk("C03", "model_checking",
        "Relayout: two sources with the same words and different gaps are formatted on joint paths; history: TWO symbolic widths W1, W2 and both modes, format_W2(format_W1(d)) == format_W2(d) on every joint path.",
        A12 + " Relayouts are seeded samples of the gap space (2 quick / 4 thorough per skeleton).", "dynamic symbolic execution of 2-3 runs on joint paths with two symbolic widths", "DESIGN.md §3 C03")
    chk("C05", "model_checking",
        "Bounded symbolic model checking of the real wrapping code: every word length, the width, initial column, indent lengths and min_line_len are unbounded z3 integers; "
        "every feasible break layout of each enumerated paragraph skeleton is explored and the width-bound / maximality / losslessness / no-wrap obligations are decided by z3 per path; "
        "the paths provably partition the whole integer space (completeness query).",
        A12 + " len_fn other than len is outside the claim.", "dynamic symbolic execution of the five public wrapping entry points and reformat_text + per-path z3 validity queries", "DESIGN.md §3 C05")
    chk("C10", "model_checking",
        "List and heading skeletons (structures enumerated) formatted under the three list-spacing modes / cleanups on-off on joint paths with lengths and width symbolic: outputs equal modulo blank lines, "
        "re-parsed tightness per mode, cleanups == reference unbold of the parsed tree. The solver quantifies 'and nothing else changes, at any width'.",
        A12, "dynamic symbolic execution of 2-3 runs per path + structural oracles on the re-parsed output", "DESIGN.md §3 C10")
    chk("C11", "model_checking",
        "reformat_text(semantic=True) on sentence-pattern skeletons: z3 decides per path that every break is justified (sentence end or width) and every sentence end breaks unless the line so far is < 20; "
        "locality on joint paths of a document and an edited version.",
        A12 + " Reference sentence-end notion: >=2 lowercase letters + .?! + optional closing quote/paren.", "dynamic symbolic execution with integer obligations on joint paths", "DESIGN.md §3 C11")
    chk("C14", "fault_enumeration",
        "Real reformat_file/reformat_files/cli.main + real strif on a real temp dir with every reachable FS primitive wrapped by a counting fault injector; the faulted operation index is an unbounded z3 Int, "
        "fault mode / torn class / errno / nobackup / stale backup are solver-chosen; post-state invariant checked on every path. With ~15 operations per file this is enumeration done by the solver, labelled as such.",
        "Stub contract: replace/rename atomic, writes may leave any prefix (abstracted to empty/half/complete), open('w') truncates, mkdir atomic; one fault per run; crash = BaseException unwinding (no finally blocks in the code under test rely on it).",
        "symbolic fault schedule (z3 Int index + mode) over the real code on a real file system", "DESIGN.md §3 C14", engine="symlen+fs-injector")
    chk("C15", "model_checking",
        "API layer: formatter replaced by recording stubs (uninterpreted), width a z3 Int and all switches z3 Bools flowing through the real reformat_text/file/files; z3 decides captured argument == option. "
        "Several-files cases include the same file named twice under another spelling (three arguments, three results). CLI layer: flags chosen under solver forks (enumeration), real main() end to end, bytes compared with reformat_text.",
        "Formatter treated as a function of its arguments in symbolic mode; replay uses no stubs (option-sensitive document, byte comparison). --width values concrete {absent,0,1,40,120}. `-o file` with one input file is unspecified by the property and not checked.",
        "symbolic pass-through checking with uninterpreted formatter + enumerated argv", "DESIGN.md §3 C15")
    chk("C16", "model_checking",
        "Real merge_cli_with_config on a real Options record with z3 Int/Bool values and presence bits vs the three-level rule (per setting and pairwise); real main() with config files observed at the "
        "reformat_files / FileResolver boundary; real find_config_file on a duck-typed path with z3 existence bits.",
        "Integer values unbounded in merge; e2e uses fixed distinct constants; presence bits are enumerated by solver forks. Directories above the temp tree hold no config file.",
        "symbolic values + solver-enumerated presence bits through the real merge/search code", "DESIGN.md §3 C16")
    chk("C04", "model_checking",
        "Skeletons whose atomic constructs carry quotes and dots (tags, comments, code spans/blocks, HTML attributes, URLs, destinations, titles, labels, exotic line separators in code) in every container, "
        "ALL typography options and cleanups on, both modes, lengths and width symbolic; on every feasible path the literal-span sequence extracted from the output equals that of the input.",
        A12 + " Spans are delimited by Marko (plus a regex for template tags in text).", "dynamic symbolic execution of reformat_text + literal-span extractor differential", "DESIGN.md §3 C04")
    chk("C06", "model_checking",
        "Paragraphs mixing plain tokens with 1-3 atomic constructs (their own lengths symbolic too) in every container and mode, and tag-only-line skeletons around prose/list/table; per path a reference word "
        "reader must accept the output: constructs intact on one line, separators as in the source, tag lines alone and unindented, enclosed blocks blank-line separated.",
        A12 + " Overlap semantics of ATOMIC_CONSTRUCT_PATTERN on arbitrary text (backreference) is not encoded; covered through the construct vocabulary only.", "dynamic symbolic execution of reformat_text + reference word reader", "DESIGN.md §3 C06")
    chk("C07", "model_checking",
        "20 concrete frontmatter blocks (quotes, dots, long lines, exotic separators, CRLF, padded delimiters) x body skeletons x option sets on joint paths: format(fm+body) == fm' + format(body); "
        "unclosed opening returned unchanged and stable over three runs. Body lengths and width symbolic. Plus a z3 string lemma: the current source of split_frontmatter executed on K symbolic lines "
        "(K<=4 quick, 6 thorough; printable ASCII, <=8 chars each) agrees with a reference reading of 'block delimited by --- lines' on every path and case (all queries unsat).",
        A12 + " Frontmatter content in the document sweep is concrete (enumerated); the lemma's alphabet excludes CR, FF and Unicode separators (left to the concrete blocks); precondition: the body does not start with '---'.",
        "dynamic symbolic execution of two runs per path (with / without frontmatter) + lifted split_frontmatter on z3 strings", "DESIGN.md §3 C07")
    chk("C08", "model_checking",
        "Document differential smartquotes on vs off on joint paths (other options enumerated): equal length and line breaks, differences only at ' or \" positions outside literal spans, literal spans equal.",
        A12 + " Literal-span positions in the output text are located by a regex scanner.", "dynamic symbolic execution of two runs per path + character-level differential", "DESIGN.md §3 C08")
    chk("C09", "model_checking",
        "Document differential ellipses on vs off on joint paths: text equal after mapping the ellipsis back and ignoring adjacent spaces, same parsed structure, literal spans equal, applying again changes nothing.",
        A12, "dynamic symbolic execution of two or three runs per path + normalising differential", "DESIGN.md §3 C09")
    chk("C12", "other",
        "Partial: on every feasible path (all lengths, every integer width) of every skeleton family plus degenerate inputs the pipeline returns a str without raising, ends in a newline, adds no NUL/placeholder "
        "and no trailing space on blank code lines. Hangs, running time and arbitrary Unicode are not SMT objects and are NOT claimed.",
        A12 + " Only the well-formedness half of the property is decided; the timing half is declined (see DESIGN.md).", "dynamic symbolic execution; exceptions on feasible paths are replayed and reported", "DESIGN.md §3 C12")
    chk("C17", "model_checking",
        "Real FileResolver.resolve on a real temp tree materialised per path from solver-chosen presence bits of a 13-entry skeleton (nested dirs, default/user-excluded dirs, ignore file, links to a file inside / "
        "in an excluded dir / outside, link to a dir), with three file sizes and the size limit as unbounded z3 Ints (injected through Path.stat and the config) and five settings bits; 12 argument sets (incl. a directory argument below a directory pruned by an earlier argument's walk). "
        "Result must be absolute, sorted, unique, equal to a reference computed from the tree specification, and invariant under argument reversal and reversed listing order.",
        "Bound = the skeleton and the argument sets; presence/setting bits are enumerated by solver forks, the size/limit order relations are decided symbolically; replay materialises the tree with real sizes. gitignore handling is C18's subject (no .gitignore in this tree).",
        "symbolic tree (bits + Int sizes) through the real resolver on a real file system vs reference walk of the specification", "DESIGN.md §3 C17", engine="symlen+tmp-tree")
    chk("C18", "translation_validation",
        "The strings the real traversal hands to pathspec are obtained by tracing _walk_directory on a marker tree (regenerated every run) and turned into templates over symbolic path components; pathspec's compiled "
        "regexes for each .gitignore of a bounded grammar are translated into z3 regexes; A third trace (one resolver, two overlapping traversal roots) yields the calls an inner walk makes on a .gitignore above its own root (none on a correct tree; otherwise z3 finds hidden names and git rooted at the inner directory is the replay oracle). z3 searches components on which 'some traced call says ignored' differs from gitignore semantics on the path relative to the "
        "file's directory. Every model is replayed against real `git check-ignore` and FileResolver.resolve; the reference formula itself is checked against git on every replayed model.",
        "Bound: two directory levels, components [abx]{1,3}, file [abx]{1,3}.md, one- and two-line .gitignore files from the listed grammar, at the root or one level down. pathspec's regexes are trusted only as far as "
        "the git replay confirms them. Core excludes files, global excludes and .git/info/exclude are outside the claim.",
        "z3 regex-inclusion queries on trace-derived templates + git as replay oracle", "DESIGN.md §3 C18", engine="re2smt+git")
    NA["C13"] = ("quantifies over thread interleavings and process histories of CPython interpreter state; no available solver engine models a scheduler or a symbolic Python heap, "
                 "and a bounded history with symbolic word lengths would be a concrete test wearing a solver (DESIGN.md §3 C13)")
