def fill(chk, NA):
    chk("C05", "model_checking",
        "Bounded symbolic model checking of the real wrapping code: every word length, the width, initial column, indent lengths and min_line_len are unbounded z3 integers; "
        "every feasible break layout of each enumerated paragraph skeleton is explored and the width-bound / maximality / losslessness / no-wrap obligations are decided by z3 per path; "
        "the paths provably partition the whole integer space (completeness query). Right level because the property is exactly about coincidences of lengths and width.",
        "Bound = skeleton family (<=5 words quick / <=7 thorough, listed word kinds, contexts, entry points). Assumes A1 content uniformity and A2 sym_len==len, both validated per sampled path by replay on unpatched code; z3 is trusted. len_fn other than len is outside the claim.",
        "dynamic symbolic execution (own engine over z3 LIA) of the real functions + per-path z3 validity queries + replay of models",
        "DESIGN.md §3 C05")
    pending = "check not built yet in this revision (work in progress; see DESIGN.md §3 for the plan)"
    for p in ["C01","C02","C03","C04","C06","C07","C08","C09","C10","C11","C12","C14","C15","C16","C17","C18"]:
        NA[p] = pending
    NA["C13"] = ("quantifies over thread interleavings and process histories of CPython interpreter state; no available solver engine models a scheduler or a symbolic Python heap, "
                 "and a bounded history with symbolic word lengths would be a concrete test wearing a solver (DESIGN.md §3 C13)")
