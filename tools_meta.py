#!/usr/bin/env python
"""
Dev-time tool: (re)write /verif/seeded/<name>/meta.json from eval.json (written by tools_seed.py).
`needs_to_manifest` is kept from an existing meta.json; for a new seed it is taken from the sub-agent's notes.
"""
from __future__ import annotations

import json
import os
import sys

HERE = os.path.dirname(os.path.abspath(__file__))


def main() -> int:
    names = sys.argv[1:] or sorted(os.listdir(f"{HERE}/seeded"))
    for n in names:
        d = f"{HERE}/seeded/{n}"
        if not os.path.exists(f"{d}/eval.json"):
            continue
        ev = json.load(open(f"{d}/eval.json"))
        old = json.load(open(f"{d}/meta.json")) if os.path.exists(f"{d}/meta.json") else {}
        needs = old.get("needs_to_manifest") or ev.get("notes", "")
        ran = [
            "git apply patch.diff (in /repo, or in a scratch worktree with PYTHONPATH=<worktree>/src while /repo was in use)",
            f"pytest -q -p no:cacheprovider  -> {ev.get('tests_mutated')}",
            f"demo.py  -> exit {ev.get('demo_mutated', {}).get('rc')} on the mutated tree, exit {ev.get('demo_clean', {}).get('rc')} on the clean tree",
        ]
        det = {}
        for p, c in ev.get("checks", {}).items():
            ran.append(f"./vcheck {p} --tier quick  -> exit {c.get('rc')} with {c.get('violations')} VIOLATION line(s) in {c.get('wall_s')} s")
            det[p] = {"exit": c.get("rc"), "first_violation": (c.get("first") or [""])[0][:300]}
        ran.append("git checkout -- .")
        meta = {
            "property": ev["property"], "name": ev["name"],
            "origin": old.get("origin") or "written by an independent sub-agent given only the property text and a scratch worktree (no access to /verif)",
            "breaks": ev["property"], "needs_to_manifest": needs, "what_was_run": ran, "detected_by": det,
        }
        json.dump(meta, open(f"{d}/meta.json", "w"), indent=1)
        print(n, {p: v["exit"] for p, v in det.items()})
    return 0


if __name__ == "__main__":
    sys.exit(main())
