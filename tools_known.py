"""Dev-time tool: (re)writes known_findings.json from the table below. Never run by a check."""
import json

F = []


def known(prop, key, what):
    F.append(dict(status="known", property=prop, key=key, what=what))


def fixed(prop, commit, what, key=""):
    F.append(dict(status="fixed", property=prop, key=key, commit=commit, what=f"fixed: property={prop} {commit} {what}"))


# ---------------------------------------------------------------- fixed
fixed("C05", "6177445", "fill_text subtracted the indent from the width and wrap_paragraph counted it again: indented Wrap modes wrapped to width-2*indent (lines not maximal) and width==indent disabled wrapping; fill_text('a b c d', Wrap.WRAP_INDENT, width=4) gave one long line", "fill/*/maximal")
fixed("C01", "f8adea9", "a word pushed to a continuation-line start was escaped only if it was a bare - + * > or #..: reformat_text('aaaa bbbb ===', width=10) became a heading; likewise >x, ---, ***, ___, ```x, ~~~ (quote, rule, fence)", "para[<block-start-word>@inner]/shape")
fixed("C01", "f6cf90a", "same defect for the spaced rule '_ _ _': a bare underscore at a wrapped line start was not escaped", "para[_ _ _@inner]/shape")
fixed("C06", "b15ea48", "an adjacent tag pair after prose on a continuation line ('bbb {% c %}{% /c %} d') was split between the two tags by the multi-line-opening-tag workaround, separating adjacent tags (also C01: a space appears)", "para[tag-pair@inner]")
fixed("C02", "add0684", "semantic mode with width<=0 did not collapse whitespace: '- [ ] a b' gained a space after the checkbox on every run; 'a   b' kept its run of spaces (also C03)", "block[task]/idempotent")
fixed("C02", "c772256", "unclosed frontmatter: every run appended another newline (also C07)", "front[fm-unclosed]/idempotent")
fixed("C01", "7f2ef9e", "code span delimiter: ``a`b`` was rewritten to `a`b` (different span); delimiter now longer than any inner backtick run (also C04)", "para[code2]/shape")
fixed("C16", "4638880", "config key 'include' accepted without warning but never reached the resolver", "e2e/accepted-key-has-effect:include")
fixed("C10", "7a1a514", "setext headings were skipped by the unbold cleanup, smart quotes and ellipses: '**T**' over '===' kept its bold on run 1 and lost it on run 2 (also C02)", "heading[setext-bold]/cleanups:unbold-exactly")
fixed("C02", "e9964b6", "'1\\.' at the start of a soft-broken line lost its escape; in a paragraph with a tag/comment the second run then emitted '1. b' at a line start, which reads as a list (also C01 on the second run)", "para2[1.+comment]/idempotent:escape")
fixed("C01", "08aa676", "a list that is the first child of a list item ('- - a' / '  - b') was re-nested: every inner item got the outer marker again", "block[nested-direct]/shape")
fixed("C02", "521f64b", "list_spacing=loose emitted a separator before a list that opens a list item: a leading blank (or '>') line, one more on every run", "para[<list-marker>@first]/idempotent:blank-lines")

fixed("C04", "7c03479", "ellipsis conversion rewrote '...' inside template tags ({% f k=\"v...\" %} -> k=\"v …\") (also C09)", "verb[tag-quotes]/verbatim:tag")
fixed("C04", "1af9d80", "link titles: inline title ending in a quoted word lost its last character; raw reference-definition titles were double-escaped / kept single quotes as text", "verbblock[refdef-quotes]/verbatim:link")
fixed("C02", "bf0c65e", "reference links whose definition writes the title in single quotes or parentheses flipped between inline and reference form on successive runs", "verbblock[refdef-sq-title]/idempotent")
fixed("C04", "22ff3ad", "code block lines were split at \\x0b \\x0c \\x1c-\\x1e \\x85 U+2028/9 (str.splitlines)", "verbblock[code-formfeed]/verbatim:codeblock")
fixed("C07", "86459c9", "frontmatter lines were split at form feeds / Unicode line separators (str.splitlines): block not passed through character for character", "fm[formfeed]/frontmatter:exact")
fixed("C04", "21cc215", "link/image destination with spaces or unbalanced parentheses lost its angle brackets: [x](<a b> 'T') -> [x](a b \"T\") (no longer a link)", "verb[link-dest-angle]/verbatim:link")
fixed("C08", "afe82d7", "with smart quotes on, '...' directly after a closing quote was no longer converted to the ellipsis (curly closing quotes missing from the ellipsis prefix class)", "verbblock[codeblock-quotes]/smartquotes:same-length")
fixed("C01", "4136501", "'** *' / '__ _' (thematic breaks) at a wrapped line start: found by the z3 escaper-completeness query", "escaper[rule]/shape")
fixed("C01", "8e8037e", "table delimiter rows ('-|-', ':-:|-', '| -|') at a wrapped line start under a line with the same number of cells became a GFM table: found by the z3 escaper-completeness query", "escaper[table-delim]/shape")
fixed("C01", "4898454", "a heading inside a block quote ended with a bare empty line and split the quote in two ('> ## h' / '>' / '> text'); list items after an item holding a heading inside a quote were lost from the list", "list[PH|P]/list-spacing:structure")
fixed("C03", "4d2f64e", "the second of two adjacent quoted phrases kept straight quotes unless two or more spaces separated them (QUOTE_PATTERN consumed the separator): layout dependent", "verb[quoted-code]/relayout:content")
fixed("C10", "7d63d2a", "no blank line before the next list item after an item ending in a thematic break (loose spacing)", "list[PR|P]/list-spacing:loose-blank-line-before-every-item")
fixed("C04", "413e056", "an inline link title containing a backslash followed by a double quote (or ending in a backslash) broke the link: found by the CrossHair title kernel, reproduced", "kernel[k_title]")
fixed("C01", "bb2b1ae", "an alert nested in a list item or in another quote lost its container prefix (header emitted at column 0): the alert left its container (pointed out by a sub-agent while seeding faults; skeletons added)", "block[alert-in-list]/shape")
fixed("C01", "c6214be", "a table inside a list item or block quote was rendered at column 0 and left its container", "block[table-in-list]/shape")
fixed("C01", "e6efcc2", "the separator line of a loose list inside a quote inside a list item (or footnote) was built with strip(): '- a / (blank) /   > - x /   > / (two spaces)> - y' came out with a bare '>' at column 0, which ends the outer item (also C02)", "block[loose-list-in-quote-in-item]/shape")
fixed("C01", "dd9e149", "empty list items were dropped: '1. a / 2. / 3. b' -> '1. a / 3. b' (and renumbered on the next run, C02)", "block[empty-item]/shape:+/-item")
fixed("C01", "8a49827", "render_table did not reset the skip-next-blank-line flag set by a heading: '# h' directly followed by a table lost the blank line after the table, and the next run read the following paragraph as a table row (C02)", "block[heading-then-table]/shape")
fixed("C10", "b6eed66", "a heading is always followed by a blank line; directly inside an item of a tight list that made the list loose ('- ## a / - b' -> '- ## a / blank / - b': preserve did not keep the list as authored, tight did not tighten it) and, with a further block in the item, the next run separated the other items too (C02/C03 heading-then-block-in-tight-item)", "list[H|P]/list-spacing:preserve-as-authored")
fixed("C07", "724e023", "reformat_file read the input with Path.read_text(), whose universal-newline translation turned a lone CR inside a frontmatter block into a line break ('a: x\\ry' -> two lines); the string API passed it through (also an entry-point disagreement, C15)", "file[lone-cr]/frontmatter:exact-through-file")
fixed("C06", "a81efe7", "no blank line before a closing tag after a list item that wraps or has a continuation line: the tag was read as part of the item on the next run (also C01/C02)", "tagblock[cont-before-close-*]/tagblock:blank-line-separated")
fixed("C17", "fa95314", "directory traversal followed symlinks to files (targets outside the tree or inside excluded directories were listed); glob arguments skipped excluded directories and .flowmarkignore", "dir/unwanted[reached-via-file-link]")

# ---------------------------------------------------------------- known: C05
MERGE = ("semantic mode merges a short last line with the next sentence testing len(last)+1+len(first) <= width without the line's indent and lays the sentence out from indent+len(last) "
         "without the joining space: the merged line is up to indent+1 columns too long. reformat_text('> a b cccccccccccccc. d e', width=24, semantic=True) -> 25-column line. "
         "Not repaired: tests/testdocs/testdoc.expected.*.md pin 89-column lines at width 88, so the unedited suite fails with the fix.")
known("C05", "doc/semantic/width-bound:semantic-merge", MERGE)
known("C05", "lwbs/width-bound:semantic-merge", "same defect through line_wrap_by_sentence(width, min_line_len)(text, indent, indent)")
FIRST = ("wrap_paragraph_lines restarts its column count at subsequent_offset when the first word does not fit at initial_column, although the word stays on the first line: following words are "
         "packed onto the first line past the width. reformat_text('[^averyverylonglabelhere]: word1 word2 word3 word4 word5', width=30) -> 50-column first line. Not repaired: "
         "line_wrap_by_sentence relies on that reset (there the word really moves to a new line); separating the two meanings is an API decision; the golden documents also pin such a line.")
for k in ("doc/fill", "doc/semantic", "wpl", "wp", "lww", "lwbs"):
    known("C05", f"{k}/width-bound:first-word-does-not-fit", FIRST if k == "doc/fill" else "same defect through " + k)
HB = ("the hard-break backslash is appended after the segment has been wrapped to the full width: a segment's last line can be width+1 columns. "
      "reformat_text('aa b c\\\\\\ndd e f', width=6) -> 'aa b c\\\\' (7 columns). Not repaired: needs the wrapper to reserve a column for the last line of a segment only.")
for k in ("doc/fill", "doc/semantic", "lww"):
    known("C05", f"{k}/width-bound:hard-break-backslash", HB if k == "doc/fill" else "same defect through " + k)

known("C05", "doc/fill/maximal:adjacent-tags-counted-with-space",
      "adjacent tags ('{% a %}{% b %}') get a temporary space for tokenizing that is removed after wrapping, but the greedy filler counted it: a line holding such a pair may end one column early per pair "
      "('aa b {% c %}{% d %} k' + 'll' at width 24 breaks before 'll' although it fits). Cosmetic; not repaired (same mechanism as the C06 separated-tags finding).")

# ---------------------------------------------------------------- known: C11
known("C11", "place/break-justified:failed-merge-layout",
      "semantic mode lays the next sentence out as a continuation of a short last line (from column indent+len(last), without the joining space) and, when the merge test then fails, keeps that "
      "reduced-room layout on a line of its own: a break that neither follows a sentence end nor is forced by the width. reformat_text('a bb. c dd.', width=6, semantic=True) -> 'a bb.\\nc\\ndd.' "
      "although 'c dd.' fits. Same root cause as C05 semantic-merge; not repaired for the same reason (golden documents pin the current layout).")

# ---------------------------------------------------------------- known: C01 / C02 / C03
FWA = ("the first word of a paragraph (or of a segment after a hard break / tag newline) is never escaped because it was at a line start in the source too; but a word that is a block only when it "
       "stands alone or first on its line ('---', '***', '___', '===' after a kept newline, '[x]:') can be left there by wrapping: reformat_text('--- aaaaaaaa b c', width=8) -> '---' alone = a rule; "
       "'aaa b c\\\\\\n--- mmmm nn' at width 7 -> setext heading. Not repaired: needs a whole-line check when a line is emitted, a second escaping mechanism beside the per-word one.")
known("C01", "first-word-alone/shape", FWA)
known("C02", "first-word-alone/idempotent", "consequence of the C01 first-word-alone finding: the second run re-reads the block the lone word turned into")
known("C03", "first-word-alone/history", "consequence of the C01 first-word-alone finding: formatting at a narrow width first changes the document")
known("C03", "first-word-alone/relayout", "consequence of the C01 first-word-alone finding")
CT = ("a closing tag ('{% /x %}') at the start of a continuation line is un-indented and separated by a blank line by design (_fix_closing_tag_spacing), also when the line legitimately belongs to a "
      "list item: '- aaa bbb ccc\\n  {% /c %} m n' -> the tag line and the rest of the item leave the list. Design decision of the tag handling; not repaired.")
known("C01", "closing-tag/shape:+para/-", CT)
known("C02", "closing-tag/idempotent:rebreak", "same mechanism: wrapping can itself put a closing tag at the start of a continuation line of a list item; the second run then moves it out of the item")
known("C03", "closing-tag/history:rebreak", "same mechanism seen as history dependence")
known("C03", "closing-tag/history:content", "same mechanism seen as history dependence")
known("C02", "marker-after-kept-newline/idempotent:trailing-space",
      "inside a block quote a blank separator line is emitted as '>' by render_list_item but as '> ' (trailing space) by render_blank_line; a list that interrupts a paragraph in a quote gets '>' on run 1 "
      "and '> ' on run 2 (list_spacing loose/tight). Not repaired: the golden documents pin both spellings.")
known("C02", "marker-after-kept-newline/idempotent:blank-lines",
      "a list directly after a paragraph line ending in a tag: run 1 leaves 'tag\\n- item', run 2 sees a tag-only line followed by a list line and inserts the blank line of the tag-block rule. "
      "Not repaired: run 1 would have to apply the tag-block spacing rule to its own output.")
known("C03", "marker-after-kept-newline/history:blank-lines", "same mechanism seen as history dependence")
known("C03", "marker-after-kept-newline/history:trailing-space", "same mechanism seen as history dependence")
known("C03", "escape-persists/history:escape",
      "a line-start escape introduced at a narrow width ('\\\\-', '\\\\#', '\\\\>x', '\\\\===', '1\\\\.') is kept by the renderer at any later width (escapes other than a mid-line period are always preserved): "
      "reformat_text('aaaa bbbb - cccc', width=10) then width=80 -> 'aaaa bbbb \\\\- cccc'. Design decision of render_literal (conservative escaping); not repaired.")
known("C03", "tag-newline/history:rebreak",
      "a newline next to a tag/comment is significant by design, including one that wrapping itself produced at a narrow width: formatting at width 25 then 0 keeps the tag at a line end. Inherent in the declared exception.")
known("C03", "tag-newline/history:content", "same mechanism (line structure around the tag differs)")
known("C03", "heading-or-table-row/relayout:space-runs",
      "headings and table cells are not re-flowed, so runs of spaces inside them survive: '## a   b' and '| b   c |' are output as is (in any container). Not repaired: would change heading/table rendering broadly.")

# ---------------------------------------------------------------- known: footnote-first-line-list, heading-then-block-in-tight-item
_FN = ("a multi-item list inside a footnote definition ('[^1]: - b' / '    - c' / '' / '    d', or the same list after a first paragraph): Marko's footnote extension (the parser flowmark uses) "
       "reads the second item, written at the footnote's 4-space indent, as nested in the first ('[^n]: i / (blank) /     - a /     - d' parses as a[d]); the renderer writes what was parsed at the "
       "item's content indent (6 spaces), and when the first item holds several blocks and a paragraph follows, Marko reads *that* output differently again (the paragraph moves into the nested "
       "item): reformat_text twice gives two documents, and list-spacing obligations checked by re-parsing fail. The cause is the indentation handling of Marko's footnote extension; no small repair "
       "inside flowmark. C10 collapses every obligation of a footnote-wrapped list skeleton into one key for this reason.")
for _p, _k in [("C01", "shape:same-kinds:text-or-attr"), ("C02", "idempotent:rebreak"), ("C02", "idempotent:space-runs"), ("C02", "idempotent:blank-lines"), ("C02", "idempotent:content"),
               ("C03", "history:rebreak"), ("C03", "history:blank-lines"), ("C03", "history:content"), ("C03", "history:space-runs"),
               ("C10", "list-spacing")]:
    known(_p, f"footnote-first-line-list/{_k}", _FN)
# ---------------------------------------------------------------- known: sentence-initial-marker, escaped-numeral-after-soft-break, code-span-inner-space-runs
_SM = ("semantic mode wraps every sentence separately, and markdown_escape_word is only applied to words that start a continuation line *within* a sentence: the first word of a sentence that "
       "starts a line of its own is not escaped, so 'aaa bbb ccc. # m n o' comes out as 'aaa bbb ccc.' / '# m n o' (a heading; likewise '-', '+', '1.' start a list). The 6-line repair (escape the "
       "first word of such a sentence) was written; it changes line 982 of tests/testdocs/testdoc.expected.*.md ('- REBEL EM - more words' would become '\\- REBEL EM ...'), so the unedited suite "
       "fails with it: recorded, not repaired.")
for _p, _k in [("C01", "shape"), ("C02", "idempotent"), ("C03", "history"), ("C03", "relayout")]:
    known(_p, f"sentence-initial-marker/{_k}", _SM)
known("C02", "escaped-numeral-after-soft-break/idempotent:escape",
      "render_literal keeps the escape of '1\\.' when it stands at the start of a *source* line (also after a soft break, where it is needed if the line is not re-flowed), the wrapper then joins the "
      "lines, and on the next run the numeral is mid-line and loses the escape: 'foo\\n1\\. bar' -> 'foo 1\\. bar' -> 'foo 1. bar'. Whether the escape is needed depends on the output position, which "
      "only the wrapper knows; moving the decision there is not a small change.")
_CS = ("wrapping collapses every whitespace run to one space before atomic constructs are protected, so a code span padded with two or more spaces loses one level of padding per run: "
       "'`  a  `' -> '` a `' -> '`a`' (CommonMark strips one space on each side when parsing). Content of a code span changes (C01/C04) and two runs are needed (C02). Not repaired: the "
       "normalisation is shared by all wrap modes and the golden documents.")
for _p, _k in [("C01", "shape:same-kinds:text-or-attr"), ("C02", "idempotent:content"), ("C03", "history:content"), ("C03", "relayout:content"), ("C04", "verbatim:codespan")]:
    known(_p, f"code-span-inner-space-runs/{_k}", _CS)

# ---------------------------------------------------------------- known: C06
known("C06", "sentence-end-inside-construct/atomic:words",
      "in semantic mode a paragraph is split into sentences (whitespace split + SENTENCE_END_RE) before atomic constructs are protected, so a sentence end inside a code span, link text or title, "
      "HTML tag, template tag or comment gets a line break inside the construct: reformat_text('Use `foo bar. Baz qux` here.', semantic=True) -> 'Use `foo bar.\\nBaz qux` here.' (fill mode keeps it "
      "whole). A 20-line repair (protect the whitespace inside ATOMIC_CONSTRUCT_PATTERN matches while line_wrap_by_sentence splits sentences) was written and passes 301 tests, but the golden documents "
      "pin the broken form ('[St.\\nJohn's Beaumont School](...)' in tests/testdocs/testdoc.expected.{auto,cleaned,semantic}.md), so the unedited suite fails with it: recorded, not repaired.")
known("C06", "separated-tags/atomic:words",
      "adjacent tags get a temporary space for tokenizing (normalize_adjacent_tags) and denormalize_adjacent_tags removes every single space between a closing and an opening delimiter of the same "
      "family in the wrapped result - also one the author wrote: reformat_text('a {% x %} {% y %} b') -> 'a {% x %}{% y %} b' (same for comments, variables). Not repaired: the inserted space "
      "would have to be distinguishable from an authored one across the splitter, the wrapper and the joiner.")

# ---------------------------------------------------------------- known: C18
known("C18", "gitignore/pattern-with-slash-vs-basename",
      "the traversal hands pathspec only base names (file name, directory name + '/'), never the path relative to the .gitignore's directory, and combines nested .gitignore files with any(): every pattern that git "
      "anchors to a path (leading '/', or a '/' in the middle: 'docs/*.md', '/a.md', 'a/**/b', '*/x') disagrees with git in one direction or the other; e.g. root .gitignore 'docs/*.md' never hides docs/d.md, "
      "and '/a' hides b/a/b.md. Found by z3 on formulas built from the traced match_file calls, every model confirmed with `git check-ignore`. Not repaired: needs the spec chain to carry each .gitignore's directory "
      "and git's deepest-file-wins combination - a rewrite of _walk_directory/_is_dir_excluded/_get_gitignore_chain rather than a small patch.")

json.dump({"_comment": "Genuine defects of jlevy/flowmark found by these checks. status=known: recorded, not repaired (matched by (property, key); a key names an obligation and a narrowly described mechanism or skeleton, never a property alone). status=fixed: repaired by the named fix: commit in /repo; suppresses nothing.", "findings": F}, open("/verif/known_findings.json", "w"), indent=1)
print(len(F), "entries")
