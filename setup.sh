#!/bin/sh
# Build the overlay venv used by every check. Offline; idempotent.
set -e
cd "$(dirname "$0")"
V=/verif/.venv
if [ ! -x "$V/bin/python" ] || ! "$V/bin/python" -c "import z3, crosshair, marko, flowmark" 2>/dev/null; then
  rm -rf "$V"
  /venv/bin/python -m venv "$V"
  SP=$("$V/bin/python" -c "import sysconfig; print(sysconfig.get_paths()['purelib'])")
  printf '%s\n' "import site; site.addsitedir('/venv/lib/python3.12/site-packages')" > "$SP/verif_overlay.pth"
  PIP_NO_INDEX=1 "$V/bin/pip" install -q --no-index --find-links /opt/veriftools/wheels z3-solver crosshair-tool cvc5 jsonschema
fi
"$V/bin/python" -c "import z3, crosshair, marko, flowmark; print('overlay ok', z3.get_version_string(), flowmark.__file__)"
