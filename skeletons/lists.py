"""List and heading skeletons for C10 (and reused by C02)."""
from __future__ import annotations

import itertools
from typing import Any, Iterator

_n = [0]


def _tok() -> str:
    a = "abcdefghijklmnoprstuvwyz"
    i = _n[0]
    _n[0] += 1
    return "q" + a[(i // 24) % 24] + a[i % 24]


def _block(kind: str, depth: int) -> list[str]:
    if kind == "P":
        return [f"{_tok()} {_tok()} {_tok()}"]
    if kind == "C":
        return ["```", "code", "", "more", "```"]
    if kind == "Q":
        return [f"> {_tok()} {_tok()}"]
    if kind == "QH":
        return [f"> {_tok()}", ">", f"> ## {_tok()}"]
    if kind == "QR":
        return [f"> {_tok()}", ">", "> ---"]
    if kind == "H":
        return [f"## {_tok()} {_tok()}"]
    if kind == "R":
        return ["* * *"]
    if kind == "L" and depth < 2:
        return [f"- {_tok()} {_tok()}", f"- {_tok()}"]
    if kind == "L1" and depth < 2:
        return [f"- {_tok()}", "", f"- {_tok()} {_tok()}"]
    return [f"{_tok()}"]


def mk_list(items: list[list[str]], marker: str, loose: bool, depth: int = 0) -> list[str]:
    out: list[str] = []
    for n, blocks in enumerate(items):
        m = marker if not marker[0].isdigit() else f"{int(marker[:-1]) + n}{marker[-1]}"
        if marker == "task":
            m = "- [ ]" if n % 2 == 0 else "- [x]"
        lead = (m if marker != "task" else "-") + " "
        pad = " " * len(lead)
        first = True
        if n > 0 and loose:
            out.append("")
        for bi, b in enumerate(blocks):
            lines = _block(b, depth)
            if bi > 0:
                if not (b in ("L",) and not loose):
                    out.append("")
            for ln in lines:
                if first:
                    out.append((m + " " + ln) if marker == "task" else lead + ln)
                    first = False
                else:
                    out.append((pad + ln) if ln else "")
    return out


ITEM_PATTERNS = [["P"], ["P", "P"], ["P", "C"], ["P", "Q"], ["P", "L"], ["P", "L1"], ["P", "QH"], ["P", "QR"], ["P", "H"], ["P", "R"], ["Q"], ["C"], ["H"], ["R"]]


def list_docs(tier: str) -> Iterator[dict[str, Any]]:
    th = tier == "thorough"
    markers = ["-", "1.", "task", "3)"] if th else ["-", "1.", "task"]
    markers3 = ["-", "1."]
    wraps = ["top", "quote", "footnote", "footnote1"] if th else ["top", "quote"]
    combos: list[tuple[list[str], ...]] = []
    for a in ITEM_PATTERNS:
        combos.append((a, ["P"]))
        combos.append((["P"], a))
    if th:
        # three-item lists: all ordered pairs of the first four item patterns (path counts multiply per item)
        for a, b in itertools.product(ITEM_PATTERNS[:4], ITEM_PATTERNS[:4]):
            combos.append((a, b, ["P"]))
    seen = set()
    for items in combos:
        for marker in (markers if len(items) == 2 else markers3):
            for loose in (False, True):
                for wrap in wraps:
                    extra = any(i in ITEM_PATTERNS[6:] for i in items)
                    if not th and extra and (wrap != "top" or marker != "-"):
                        continue  # the rarer item patterns: one marker, top level only, in the quick tier
                    if th and wrap == "footnote" and (marker not in ("-", "1.") or len(items) == 3):
                        continue
                    if wrap == "footnote1" and (marker != "-" or len(items) == 3 or items not in ((["P"], ["P"]), (["P", "C"], ["P"]), (["C"], ["P"]))):
                        continue  # footnote wrap: two markers, two-item lists (sized so the thorough tier ends within the hour)
                    key = f"list/{wrap}/{marker}/{'loose' if loose else 'tight'}/" + "|".join("".join(i) for i in items)
                    if key in seen:
                        continue
                    seen.add(key)
                    _n[0] = 0
                    lines = mk_list([list(i) for i in items], marker, loose)
                    lines += ["", f"{_tok()} {_tok()}"]
                    if wrap == "quote":
                        lines = [("> " + ln) if ln else ">" for ln in lines]
                    elif wrap == "footnote":
                        # the list follows a first paragraph of the definition (a list that starts on the label line itself is
                        # read unreliably by Marko's footnote extension: class footnote-first-line-list, kept as "footnote1")
                        lines = [f"[^n]: {_tok()}", ""] + [("    " + ln) if ln else "" for ln in lines]
                    elif wrap == "footnote1":
                        lines = ["[^n]: " + lines[0]] + [("    " + ln) if ln else "" for ln in lines[1:]]
                    yield dict(key=key, fam="list", special=f"{marker}/{'|'.join(''.join(i) for i in items)}", doc="\n".join(lines) + "\n", authored_loose=loose)


HEADINGS = [
    ("full-bold", "# **qaa qab**\n\nqac qad\n", True),
    ("full-bold-h3", "### **qaa**\n\nqac\n", True),
    ("full-bold-underscore", "## __qaa qab__\n\nqac\n", True),
    ("part-bold", "## **qaa** qab\n\nqac\n", False),
    ("part-bold-end", "## qaa **qab**\n\nqac\n", False),
    ("bold-italic", "# ***qaa qab***\n\nqac\n", True),
    ("em-strong-part", "# *qaa **qab***\n\nqac\n", False),
    ("two-bolds", "# **qaa** **qab**\n\nqac\n", False),
    ("bold-code", "# **qaa `x` qab**\n\nqac\n", True),
    ("bold-link", "# **[qaa](http://u)**\n\nqac\n", True),
    ("setext-bold", "**qaa qab**\n===\n\nqac qad\n", True),
    ("setext-bold2", "**qaa**\n---\n\nqac\n", True),
    ("setext-part", "**qaa** qab\n===\n\nqac\n", False),
    ("bold-in-list", "- # **qaa**\n- qab qac\n", True),
    ("bold-in-quote", "> ## **qaa qab**\n>\n> qac\n", True),
    ("bold-in-alert", "> [!TIP]\n> ## **qaa**\n>\n> qab\n", True),
    ("bold-in-footnote-first", "qab[^1]\n\n[^1]: ## **qaa**\n", True),
    ("bold-in-footnote-later", "qab[^1]\n\n[^1]: qac qad\n\n    ## **qaa qae**\n\n    qaf\n", True),
    ("bold-in-footnote-quote", "qab[^1]\n\n[^1]: qac\n\n    > # **qaa**\n", True),
    ("bold-in-olist-later", "1. qab\n\n   ### **qaa qac**\n\n   qad\n2. qae\n", True),
    ("bold-in-nested-list", "- qab\n  - # **qaa**\n  - qac\n", True),
    ("bold-in-quote-list", "> - ## **qaa**\n> - qab\n", True),
    ("bold-in-quote-quote", "> > # **qaa qab**\n> >\n> > qac\n", True),
    ("bold-in-tagblock", "{% t %}\n\n# **qaa**\n\nqab\n\n{% /t %}\n", True),
    ("bold-after-table", "| qab | qac |\n| --- | --- |\n| qad | qae |\n\n## **qaa**\n", True),
    ("bold-para", "**qaa qab**\n\n# qac\n", False),
    ("bold-closing-hashes", "# **qaa** #\n\nqab\n", True),
    ("empty-bold", "# ****\n\nqaa\n", False),
    ("bolditalic-part", "# ***qaa** qab qac*\n\nqad\n", False),
    ("bolditalic-part2", "# *qaa **qab***\n\nqad\n", False),
    ("italic-bold-full", "# _**qaa qab**_\n\nqad\n", True),
    ("bold-then-italic", "# **qaa** *qab*\n\nqad\n", False),
    ("bold-strike", "# **~~qaa~~**\n\nqad\n", True),
    ("typo-heading", "# \"qaa\" qab...\n\nqac\n", False),
    ("typo-setext", "\"qaa\" qab's qac...\n===\n\nqad\n", False),
]


def heading_docs(tier: str) -> Iterator[dict[str, Any]]:
    for name, doc, full in HEADINGS:
        yield dict(key=f"heading/{name}", fam="heading", special=name, doc=doc, fully_bold=full)
