"""
Document skeleton families shared by the document-level sweeps (C01, C02, C03, C04, C06, C12).

A skeleton is concrete Markdown whose prose words are reserved tokens (symbolic lengths).
Every family yields dicts: {key, doc, fam, special, ...}.
"""
from __future__ import annotations

from typing import Any, Iterator

from skeletons import contexts as K
from skeletons import words as V

# special words inserted into a plain paragraph, with a normal-form name used in finding keys
HAZ = [
    ("-", ["-"]), ("+", ["+"]), ("*", ["*"]), ("1.", ["1."]), ("1)", ["1)"]), ("12.", ["12."]), ("#", ["#"]), ("##", ["##"]),
    (">", [">"]), (">x", [">qza"]), ("--", ["--"]), ("---", ["---"]), ("=", ["="]), ("===", ["==="]), ("***", ["***"]),
    ("___", ["___"]), ("```", ["```"]), ("```x", ["```qza"]), ("~~~", ["~~~"]), ("|", ["|"]), ("|-|", ["|-|"]),
    (":-:", [":-:"]), ("<div>", ["<div>"]), ("- -", ["-", "-"]), ("* * *", ["*", "*", "*"]), ("_ _ _", ["_", "_", "_"]),
    ("-x", ["-qza"]), ("1.x", ["1.qza"]), ("#x", ["#qza"]), ("[x]:", ["[qza]:"]), ("+x", ["+qza"]),
    ("**", ["**"]), ("** *", ["**", "*"]), ("__ _", ["__", "_"]), ("_____", ["_____"]), ("-|-", ["-|-"]), ("~~~x", ["~~~qza"]), ("####### ", ["#######"]),
]
HAZ_QUICK = ["-", "+", "*", "1.", "1)", "#", "##", ">", ">x", "--", "---", "=", "===", "***", "___", "```", "```x", "~~~", "|-|", "- -", "* * *", "_ _ _", "** *"]

ATOMS = [
    ("tag", ["{% qza qzb %}"]), ("tag-close", ["{% /qza %}"]), ("jcomment", ["{# qza qzb #}"]), ("var", ["{{ qza }}"]),
    ("comment", ["<!-- qza qzb -->"]), ("code", ["`qza qzb`"]), ("link", ["[qza qzb](http://u/qzc)"]),
    ("image", ['![qza qzb](u "qzc qzd")']), ("html-open", ['<span a="b c">']), ("html-close", ["</span>"]),
    ("autolink", ["<http://u/qza>"]), ("url", ["http://u.example/qza"]), ("em", ["*qza qzb*"]), ("strong", ["**qza**"]),
    ("del", ["~~qza~~"]), ("esc-period", ["1\\."]), ("esc-star", ["\\*qza"]), ("tag-pair", ["{% qza %}{% /qza %}"]),
    ("code2", ["``qza ` qzb``"]),
]
ATOMS_QUICK = ["tag", "comment", "code", "link", "html-open", "url", "em", "esc-period", "tag-pair"]


def _specials(tier: str) -> list[tuple[str, list[str]]]:
    if tier == "thorough":
        return HAZ + ATOMS
    return [h for h in HAZ if h[0] in HAZ_QUICK] + [a for a in ATOMS if a[0] in ATOMS_QUICK]


def para_special(tier: str, n: int | None = None) -> Iterator[dict[str, Any]]:
    """N plain tokens + one special at several positions, every context."""
    th = tier == "thorough"
    n = n or (5 if th else 4)
    ctxs = [c for c in (K.K_ALL if th else K.K_QUICK) if c != "task"]
    positions = list(range(0, n + 1)) if th else [0, 2, n]
    for ctx in ctxs:
        for name, sp in _specials(tier):
            for pos in positions:
                words = V.toks(n)
                words = words[:pos] + sp + words[pos:]
                yield dict(key=f"para/{ctx}/{name}@{pos}", fam="para", ctx=ctx, special=name, words=words, plines=[" ".join(words)])


def para_two_specials(tier: str) -> Iterator[dict[str, Any]]:
    if tier != "thorough":
        pairs = [("---", "==="), ("-", "tag"), (">x", "code"), ("1.", "link")]
    else:
        names = ["-", "1.", ">x", "---", "===", "```", "tag", "code", "link", "comment", "esc-period"]
        pairs = [(a, b) for i, a in enumerate(names) for b in names[i:]]
    table = dict(HAZ + ATOMS)
    for ctx in (["top", "bullet", "quote"] if tier == "thorough" else ["top"]):
        for a, b in pairs:
            t = V.toks(4)
            words = t[:1] + table[a] + t[1:3] + table[b] + t[3:]
            yield dict(key=f"para2/{ctx}/{a}+{b}", fam="para2", ctx=ctx, special=f"{a}+{b}", words=words, plines=[" ".join(words)])


def para_after_sentence(tier: str) -> Iterator[dict[str, Any]]:
    """A marker-like word directly after a sentence end: in semantic mode it starts a line of its own."""
    th = tier == "thorough"
    for ctx in (["top", "bullet", "quote"] if th else ["top", "bullet"]):
        for m in (["-", "+", "1.", "#", ">qza", "---", "===", "2)"] if th else ["-", "1.", "#"]):
            a = V.toks(3)
            a[-1] += "."
            words = a + [m] + V.toks(3, 12)
            yield dict(key=f"sent/{ctx}/{m}", fam="sent", ctx=ctx, special=f"sent+{m}", words=words, plines=[" ".join(words)])


def para_breaks(tier: str) -> Iterator[dict[str, Any]]:
    """Hard breaks (both spellings) and tag-adjacent newlines; hazard words right after the kept newline."""
    th = tier == "thorough"
    ctxs = [c for c in (K.K_ALL if th else ["top", "bullet", "quote"]) if c != "task"]
    firsts = ["qak", "-", "1.", "#", ">qza", "---", "===", "1\\.", "\\-", "\\#"] if th else ["qak", "-", "1.", "---", "1\\."]
    for ctx in ctxs:
        for f in firsts:
            a, b = V.toks(3), [f] + V.toks(2, 12)
            yield dict(key=f"hard-bs/{ctx}/{f}", fam="hardbreak", ctx=ctx, special=f"hard+{f}", words=a + b, plines=[" ".join(a) + "\\", " ".join(b)])
            yield dict(key=f"hard-sp/{ctx}/{f}", fam="hardbreak", ctx=ctx, special=f"hard+{f}", words=a + b, plines=[" ".join(a) + "  ", " ".join(b)])
        for f in firsts:
            a, b = V.toks(2) + ["{% qza %}"], [f] + V.toks(2, 12)
            yield dict(key=f"tagnl-after/{ctx}/{f}", fam="tagnl", ctx=ctx, special=f"tagnl+{f}", words=a + b, plines=[" ".join(a), " ".join(b)])
        a, b = V.toks(3), ["{% /qza %}"] + V.toks(2, 12)
        yield dict(key=f"tagnl-before/{ctx}", fam="tagnl", ctx=ctx, special="tagnl-before", words=a + b, plines=[" ".join(a), " ".join(b)])
        a, b = V.toks(2) + ["<!-- qza -->"], V.toks(3, 12)
        yield dict(key=f"commentnl/{ctx}", fam="tagnl", ctx=ctx, special="commentnl", words=a + b, plines=[" ".join(a), " ".join(b)])
        # a hard break directly after an escaped backslash (both spellings)
        a, b = V.toks(2) + ["qzx" + chr(92) * 2], V.toks(2, 12)
        yield dict(key=f"hard-after-escaped-backslash-bs/{ctx}", fam="hardbreak", ctx=ctx, special="hard-after-esc-backslash", words=a + b, plines=[" ".join(a) + chr(92), " ".join(b)])
        yield dict(key=f"hard-after-escaped-backslash-sp/{ctx}", fam="hardbreak", ctx=ctx, special="hard-after-esc-backslash", words=a + b, plines=[" ".join(a) + "  ", " ".join(b)])
        # an escaped numeral at the start of a source line after a soft break
        a, b = V.toks(3), ["1" + chr(92) + "."] + V.toks(2, 12)
        yield dict(key=f"softbreak-esc-numeral/{ctx}", fam="soft", ctx=ctx, special="softbreak+esc-numeral", words=a + b, plines=[" ".join(a), " ".join(b)])
        # plain soft break inside a paragraph (must vanish)
        a, b = V.toks(3), V.toks(3, 12)
        yield dict(key=f"softbreak/{ctx}", fam="soft", ctx=ctx, special="softbreak", words=a + b, plines=[" ".join(a), " ".join(b)])


BLOCKS: list[tuple[str, str]] = [
    ("atx", "## qaa qab qac\n\nqad qae qaf\n"),
    ("atx-closing", "# qaa qab #\n\nqad\n"),
    ("setext1", "qaa qab\n===\n\nqac qad qae\n"),
    ("setext2", "qaa qab\n---\n\nqac qad qae\n"),
    ("ol-start", "3. qaa qab qac\n4. qad\n   - qae qaf qag\n   - qah\n5. qai\n"),
    ("ol-paren", "1) qaa qab qac\n2) qad qae\n"),
    ("ul-nested3", "- qaa qab\n  - qac qad\n    - qae qaf qag\n  - qah\n- qai\n"),
    ("ul-star-plus", "* qaa qab qac\n* qad\n\n+ qae qaf\n+ qag\n"),
    ("task", "- [ ] qaa qab qac\n- [x] qad qae\n- qaf\n"),
    ("loose", "- qaa qab qac\n\n- qad qae\n\n- qaf\n"),
    ("item-2para", "- qaa qab qac\n\n  qad qae qaf\n- qag\n"),
    ("item-code", "- qaa qab\n\n  ```py\n  x = 1\n\n  y = 2\n  ```\n- qac\n"),
    ("item-quote", "- qaa qab\n\n  > qac qad qae\n- qaf\n"),
    ("quote-2para", "> qaa qab qac\n>\n> qad qae qaf\n"),
    ("quote-code", "> qaa\n>\n> ```\n> code `x`\n>\n> more\n> ```\n"),
    ("quote-list", "> - qaa qab qac\n> - qad qae\n"),
    ("quote-nested", "> qaa qab\n>\n> > qac qad qae\n"),
    ("alert", "> [!WARNING]\n> qaa qab qac qad\n>\n> - qae qaf\n"),
    ("fence-tilde", "qaa\n\n~~~~ text extra info\n``` inner\n~~~\n~~~~\n\nqab qac\n"),
    ("fence-long", "`````\n```\nx\n```\n`````\n\nqaa qab\n"),
    ("indented-code", "qaa qab\n\n    code line\n      more\n\nqac qad\n"),
    ("rule", "qaa qab qac\n\n---\n\nqad qae\n"),
    ("table", "| qaa | qab qac |\n|:--|--:|\n| qad qae | `x\\|y` |\n| qaf | |\n\nqag qah\n"),
    ("table-center", "qaa | qab\n:-: | ---\nqac | qad qae\n"),
    ("refdef", "[qaa qab][r] qac qad [r]\n\n[r]: http://u/qae \"qaf qag\"\n"),
    ("refdef-notitle", "qaa [qab][k] qac\n\n[k]: <http://u/x>\n"),
    ("footnote", "qaa[^n] qab qac\n\n[^n]: qad qae qaf qag\n\n    qah qai\n"),
    ("para-then-list", "qaa qab qac\n- qad qae\n- qaf\n"),
    ("list-then-para", "- qaa qab\n- qac\n\nqad qae qaf\n"),
    ("html-inline", "qaa <b>qab</b> qac <br/> qad\n"),
    ("emph-nest", "qaa *qab **qac qad** qae* ~~qaf qag~~ qah\n"),
    ("link-title", "qaa [qab qac](http://u/x \"qad qae\") ![qaf](i.png) qag\n"),
    ("two-paras", "qaa qab qac\n\nqad qae qaf\n"),
    ("heading-list", "# qaa\n- qab qac qad\n- qae\n## qaf\nqag qah\n"),
    ("tag-block-list", "{% qza %}\n- qaa qab qac\n- qad\n{% /qza %}\n"),
    ("tag-block-para", "{% qza %}\nqaa qab qac\n{% /qza %}\n"),
    ("tag-block-table", "<!-- qza -->\n| qaa | qab |\n|---|---|\n| qac | qad |\n<!-- /qza -->\n"),
    ("esc-period-start", "1\\. qaa qab qac qad\n"),
    ("esc-misc", "qaa \\# qab \\- qac \\> qad \\* qae\n"),
    ("strike-tilde", "~60 qaa, ~130 qab qac\n"),
    ("ol-big", "99. qaa qab qac\n100. qad qae qaf\n"),
    ("nested-direct", "- - qaa qab\n  - qac\n- qad\n"),
    ("ol-nested-direct", "1. - qaa\n   - qab\n2. qac\n"),
    ("item-code-first", "- ```\n  code\n  ```\n- qaa qab\n"),
    ("item-quote-first", "- > qaa qab\n  > qac\n- qad\n"),
    ("item-heading-first", "- # qaa\n\n  qab qac\n- qad\n"),
    ("quote-list-first", "> - - qaa qab\n>   - qac\n"),
    ("ol-digit-gain-para", "9. qaa\n10. qab qac\n\n    qad qae\n11. qaf\n"),
    ("ol-digit-gain-nested", "8. qaa\n9. qab\n10. qac\n    - qad\n    - qae\n"),
    ("ol-digit-gain-code", "99. qaa\n100. qab\n\n     ```\n     x\n     ```\n"),
    ("ol-start-0", "0. qaa qab\n1. qac\n"),
    ("alert-in-list", "- qaa\n\n  > [!NOTE]\n  > qab qac qad\n- qae\n"),
    ("alert-in-quote", "> qaa\n>\n> > [!TIP]\n> > qab qac qad\n"),
    ("alert-in-olist", "1. qaa\n\n   > [!WARNING]\n   > qab qac\n2. qad\n"),
    ("alert-first-in-item", "- > [!NOTE]\n  > qaa qab qac\n- qad\n"),
    ("alert-in-footnote", "qaa[^n]\n\n[^n]: qab\n\n    > [!NOTE]\n    > qac qad\n"),
    ("table-in-list", "- qaa\n\n  | qab | qac |\n  |---|---|\n  | qad | qae |\n- qaf\n"),
    ("table-in-quote", "> | qaa | qab |\n> |:-:|--:|\n> | qac qad | qae |\n"),
    ("refdef-in-quote", "> [qaa][r] qab\n>\n> [r]: http://u/x \"qac qad\"\n"),
    ("footnote-two-blocks", "qaa[^n]\n\n[^n]: qab qac\n\n    qad qae qaf\n\nqag\n"),
    ("footnote-code", "qaa[^n]\n\n[^n]: qab\n\n    ```\n    x\n    ```\n"),
    ("image-para", "![qaa qab](i.png \"qac\") qad ![qae](<a b.png>)\n"),
    ("autolink-email", "qaa <qab@example.com> qac <http://u/qad>\n"),
    ("strike-variants", "qaa ~qab~ ~~qac qad~~ qae~ ~qaf\n"),
    ("table-pipes", "| `qaa\\|qab` | qac \\| qad |\n|---|---|\n| \\\\ | qae |\n"),
    ("table-backslash-pipe", "| `qaa" + chr(92) * 2 + "|qab` | qac |" + chr(10) + "|---|---|" + chr(10) + "| qad" + chr(92) * 3 + "| | qae |" + chr(10)),
    ("fence4-indented-inner", "qaa\n\n  ````\n  x\n     ````\n  y\n  ````\n\nqab\n"),
    ("fence4-indented-inner-tilde", "qaa\n\n ~~~~~\n x\n    ~~~~~~\n y\n ~~~~~\n\nqab\n"),
    ("fence4-in-list-inner", "- qaa\n\n   ````\n   x\n      ````\n   y\n   ````\n- qab\n"),
    ("fence5-plain", "`````text\nx\n````\ny\n`````\n"),
    ("code-span-padded", "qaa `  qab  ` qac\n"),
    ("heading-then-table", "# qaa\n| qab | qac |\n|---|---|\n| qad | qae |\n\nqaf qag\n"),
    ("heading-then-table-in-quote", "> ## qaa\n> | qab | qac |\n> |---|---|\n> | qad | qae |\n>\n> qaf qag\n"),
    ("footnote-first-list-then-para", "qaa[^1]\n\n[^1]: - qab\n    - qac\n\n    qad\n"),
    ("empty-item", "- qaa\n-\n- qab\n"),
    ("empty-item-ordered-quote", "> 1. qaa\n> 2.\n> 3. qab qac\n"),
    ("empty-item-first-nested", "- qaa\n  -\n  - qab\n"),
    ("empty-item-loose", "* qaa\n\n*\n\n* qab\n"),
    ("tight-item-heading-then-list", "- ## qaa\n  - qab\n- qac\n"),
    ("tight-item-heading-then-para", "1. # qaa\n   qab qac\n2. qad\n"),
    ("loose-list-in-quote-in-item", "- qaa\n\n  > - qab\n  >\n  > - qac\n"),
    ("loose-olist-in-quote-in-olist", "1. qaa\n\n   > 1. qab qad\n   >\n   > 2. qac\n"),
    ("loose-list-in-quote-in-quote-item", "> - qaa\n>\n>   > - qab\n>   >\n>   > - qac\n"),
    ("loose-list-in-item-in-quote", "> - qaa\n>\n>   - qab\n>\n>   - qac\n"),
    ("loose-list-in-footnote-quote", "qaa[^1]\n\n[^1]: qab\n\n    > - qac\n    >\n    > - qad\n"),
    ("quote-heading", "> ## qaa qab\n>\n> qac qad qae\n"),
    ("quote-heading-last", "> qaa qab\n>\n> ## qac\n\nqad qae\n"),
    ("quote-heading-only", "> # qaa\n"),
    ("alert-heading", "> [!TIP]\n> # qaa\n> qab qac\n"),
    ("quote-list-heading", "> - qaa\n>\n>   ## qab\n> - qac qad\n"),
    ("nested-quote-heading", "> > # qaa\n> > qab\n>\n> qac\n"),
    ("footnote-heading", "[^n]: qaa\n\n    ## qab\n\n    qac qad\n"),
    ("icode-inner-fence-0", "qaa\n\n    x\n    ```\n    y\n\nqab\n"),
    ("icode-inner-fence-1", "qaa\n\n    x\n     ```\n    y\n\nqab\n"),
    ("icode-inner-fence-2", "qaa\n\n    x\n      ````\n    y\n\nqab\n"),
    ("icode-inner-fence-3", "qaa\n\n    x\n       ```\n    y\n\nqab\n"),
    ("icode-inner-fence-4", "qaa\n\n    x\n        ```\n    y\n\nqab\n"),
    ("icode-inner-fence-list", "- qaa\n\n      x\n         ```\n      y\n- qab\n"),
    ("tilde-inner-tilde-3", "~~~\n   ~~~~\nx\n~~~\n\nqaa\n"),
    ("fence4-inner-3-indented", "````\n   ```\nx\n````\n\nqaa\n"),
]


def blocks(tier: str) -> Iterator[dict[str, Any]]:
    for name, doc in BLOCKS:
        yield dict(key=f"block/{name}", fam="block", special=name, doc=doc)


def doc_of(case: dict[str, Any]) -> str:
    if "doc" in case:
        return case["doc"]
    return K.embed(K.CONTEXTS[case["ctx"]], case["plines"])


def all_families(tier: str) -> list[dict[str, Any]]:
    out: list[dict[str, Any]] = []
    out += list(para_special(tier))
    out += list(para_two_specials(tier))
    out += list(para_breaks(tier))
    out += list(para_after_sentence(tier))
    out += list(blocks(tier))
    return out


# ------------------------------------------------------------------------------------------
# families used by C02/C03/C08/C09 in addition (typography, frontmatter, plaintext)
# ------------------------------------------------------------------------------------------

TYPO_PARAS: list[tuple[str, list[str]]] = [
    ("dq", ["qaa", '"qab', 'qac"', "qad", "qae"]),
    ("sq", ["qaa", "'qab", "qac'", "qad.", "qae"]),
    ("apos", ["qaa's", "qab", "qac'qad", "qae", "qafs'"]),
    ("dots", ["qaa...", "qab", "...qac", "qad", "qae...qaf"]),
    ("dots-punct", ["qaa", 'qab..."', "qac", "qad...,", "qae"]),
    ("mixed", ['"qaa', "qab's", 'qac..."', "qad", "`qza's \"x\"...`", "qae"]),
    ("quote-link", ["qaa", '"[qza', 'qzb](http://u/q\'s)"', "qab", "qac"]),
    ("quote-tag", ["qaa", '{% qza k="v..." %}', '"qab"', "qac", "qad"]),
    ("quote-em", ["qaa", '"*qab', 'qac*"', "qad", "qae"]),
    ("empty-quotes", ["qaa", '""', "qab", "''", "qac", '("")', "qad", '"".']),
    ("quote-single-char", ["qaa", '"x"', "'y'", '"qab"', "qac"]),
    ("nested-quotes", ["qaa", "\"'qab'", 'qac"', "'\"qad\"'", "qae"]),
    ("dots-then-quote", ['qaa..."qab', 'qac"', "qad...'qae'", "qaf"]),
    ("quote-then-dots", ['"qaa"...qab', "'qac'...", "qad"]),
    ("ellipsis-char", ['qaa…"qab"', "qac…'qad'", "“qae”…"]),
    ("dots-paren", ["qaa...", "(qab)", "qac...", '"qad"', "qae...", "(qaf)"]),
    ("dots-paren-link", ["qaa...", "(qab)", "[qac](u)", "qad...", "(qae)"]),
    ("tag-and-marker-words", ["qaa", "{% qza %}", "qab", "2019.", "qac", "|", "qad", "3)", "qae"]),
]


def typo(tier: str) -> Iterator[dict[str, Any]]:
    ctxs = ["top", "bullet", "quote"] if tier == "thorough" else ["top", "bullet"]
    for ctx in ctxs:
        for name, words in TYPO_PARAS:
            yield dict(key=f"typo/{ctx}/{name}", fam="typo", ctx=ctx, special=name, words=words, plines=[" ".join(words)])


FRONT: list[tuple[str, str]] = [
    ("fm", "---\ntitle: qaa qab\ntags: [a,   b]\n---\n\nqac qad qae qaf\n"),
    ("fm-nogap", "---\nk: \"v\"\n---\nqaa qab qac\n- qad qae\n"),
    ("fm-leading-blank", "\n\n---\nk: v\n---\n\n# qaa\n\nqab qac qad\n"),
    ("fm-long-line", "---\ndescription: qaa qab qac qad qae qaf qag qah qai\n---\n\nqak qal qam\n"),
    ("fm-unclosed", "---\ntitle: qaa qab qac\n\nqad qae qaf qag\n"),
    ("fm-only", "---\nk: qaa\n---\n"),
    ("fm-crlf", "---\r\nk: qaa\r\n---\r\nqab qac qad\r\n"),
]


def front(tier: str) -> Iterator[dict[str, Any]]:
    for name, doc in FRONT:
        yield dict(key=f"front/{name}", fam="front", special=name, doc=doc)


PLAIN: list[tuple[str, str]] = [
    ("one", "qaa qab qac qad qae qaf"),
    ("two", "qaa qab qac qad\n\nqae qaf qag"),
    ("ws", "qaa   qab\nqac \t qad\n\n\n\nqae qaf"),
    ("haz", "qaa - qab 1. qac # qad > qae"),
    ("atoms", "qaa {% qza qzb %} qab `qzc qzd` qac [qze qzf](u) qad"),
    ("indented", "  qaa qab qac\n  qad qae"),
]


def plain(tier: str) -> Iterator[dict[str, Any]]:
    for name, doc in PLAIN:
        yield dict(key=f"plain/{name}", fam="plain", special=name, doc=doc)


def special_key(case: dict[str, Any]) -> str:
    """fam[special@first|inner] without spaces - the skeleton part of a finding key"""
    pos = ""
    if case.get("fam") == "para" and "@" in case["key"]:
        pos = "@first" if case["key"].split("@")[-1].split("/")[0] == "0" else "@inner"
    return f"{case['fam']}[{str(case['special']).replace(' ', '_')}{pos}]"


# ------------------------------------------------------------------------------------------
# mechanism classes for finding keys (C01/C02/C03)
# ------------------------------------------------------------------------------------------

WHOLE_LINE = {"---", "--", "***", "___", "_____", "_ _ _", "* * *", "- -", "[x]:", "=", "===", "** *", "__ _", "**"}
TAGLIKE = {"tag", "tag-close", "jcomment", "var", "comment", "tag-pair", "quote-tag", "commentnl", "tagnl-before"}
LIST_MARKERS = {"-", "+", "*", "1.", "1)", "12."}


def finding_class(case: dict[str, Any]) -> str:
    """
    The skeleton part of a finding key.  Skeletons that exercise one narrowly described mechanism share a class
    name, so a recorded finding names the mechanism, not one word; everything else keeps its own skeleton key.
      first-word-alone  the first word of a paragraph / kept-newline segment is never escaped; a word that only
                        acts as a block when it is alone (or first) on its line, left alone there by wrapping
      closing-tag       a closing tag at the start of a continuation line is un-indented by design
      tag-newline       a newline next to a tag/comment is significant (also one that wrapping produced itself)
      marker-after-kept-newline  a list marker right after a kept newline (hard break / tag newline) starts a list
                        in the source already; only spacing around it is at stake
      sentence-initial-marker  semantic mode: the first word of a sentence that starts a line is not escaped
      escaped-numeral-after-soft-break  '1\\.' at a source line start keeps its escape, is joined mid-line, loses it next run
      code-span-inner-space-runs  whitespace runs inside a code span are collapsed by wrapping, one space per run and pass
      heading-then-block-in-tight-item  a heading always gets a blank line after it; directly inside an item of a
                        tight list that blank line makes the list loose for the next run
      footnote-first-line-list  a list that starts on the label line of a footnote definition: Marko reads the
                        indentation of what follows differently from CommonMark (and from flowmark's renderer)
    """
    fam, sp = case.get("fam"), str(case.get("special"))
    sk = special_key(case)
    if fam == "para" and sk.endswith("@first]") and sp in WHOLE_LINE:
        return "first-word-alone"
    if fam in ("hardbreak", "tagnl") and "+" in sp and sp.split("+", 1)[1] in WHOLE_LINE:
        return "first-word-alone"
    if fam in ("hardbreak", "tagnl") and "+" in sp and sp.split("+", 1)[1] in LIST_MARKERS:
        return "marker-after-kept-newline"
    if sp in ("tagnl-before", "tag-close"):
        return "closing-tag"
    if sp in TAGLIKE or (fam == "para2" and any(x in TAGLIKE for x in sp.split("+"))):
        return "tag-newline"
    if fam == "sent":
        return "sentence-initial-marker"
    if sp == "softbreak+esc-numeral":
        return "escaped-numeral-after-soft-break"
    if sp == "code-span-padded":
        return "code-span-inner-space-runs"
    if sp.startswith("tight-item-heading-then-"):
        return "heading-then-block-in-tight-item"
    if sp == "footnote-first-list-then-para":
        return "footnote-first-line-list"
    return sk


# ------------------------------------------------------------------------------------------
# non-prose spans carrying quotes and dots (C04, C08, C09)
# ------------------------------------------------------------------------------------------

VERBATIM_WORDS: list[tuple[str, list[str]]] = [
    ("tag-quotes", ['{% qza k="v..." j=\'w\' %}']),
    ("var-quotes", ['{{ qza|d("x...") }}']),
    ("jcomment-apos", ["{# it's \"qza\"... #}"]),
    ("comment-quotes", ['<!-- it\'s "qza"... -->']),
    ("code-quotes", ['`it\'s "qza"...`']),
    ("code-dots", ["`qza...qzb`"]),
    ("html-attr", ['<a title="qza\'s...">', "qzb", "</a>"]),
    ("url-apos", ["http://u.example/it's...qza"]),
    ("autolink-dots", ["<http://u.example/qza...b>"]),
    ("link-title", ['[qza](http://u/a\'b "T\'s...")']),
    ("link-title-sq", ["[qza](http://u/a 'say \"hi\"...')"]),
    ("link-dest-parens", ["[qza](http://u/a_(b)...c)"]),
    ("image-title", ['![qza\'s](i.png "qzb...")']),
    ("ref-link", ["[qza's][r...]"]),
    ("esc-quotes", ['\\"qza\\"', "qzb\\'s"]),
    ("quoted-code", ['"`qza`"', "'`qzb`'..."]),
    ("quoted-tag", ['"{% qza %}"...']),
    ("apos-after-code", ["`qza`'s", "qzb"]),
    ("possessives", ["qzas'", "qzb's", "qzc'd"]),
    ("code-span-3", ["```qza``qzb```"]),
    ("link-dest-paren-order", ["[qza](<http://u/a)(b>)"]),
    ("link-dest-paren-order-title", ['[qza](<http://u/a)(b> "T")']),
    ("two-tags-dots", ["{% qza %}", "qzb", '{% qzc t="qzd...qze" %}']),
    ("two-comments-dots", ["<!-- qza -->", "qzb...", "<!-- qzc...qzd -->"]),
    ("code-span-2-inner", ["``qza`qzb``"]),
    ("link-dest-angle", ["[qza](<a b> 'T')"]),
    ("link-dest-angle-paren", ["[qza](<a(b> \"T\")"]),
    ("image-dest-angle", ["![qza](<my img.png>)"]),
]

VERBATIM_BLOCKS: list[tuple[str, str]] = [
    ("codeblock-quotes", 'qaa "qab"...\n\n```py info "x"...\ns = \'it\'s\' + "..."\n\n  t...\n```\n\nqac\'s qad\n'),
    ("codeblock-tilde-in-list", "- qaa's \"qab\"\n\n  ~~~\n  \"x\"...   y\n  ~~~\n- qac...\n"),
    ("indented-code", 'qaa "qab"\n\n    "x"... it\'s\n\nqac\n'),
    ("code-in-quote", '> qaa\'s\n>\n> ```\n> "q"...\n> ```\n'),
    ("refdef-quotes", '[qaa][r] "qab"...\n\n[r]: http://u/it\'s...x "T\'s \\"q\\"..."\n'),
    ("refdef-sq-title", "[qaa][r] qab\n\n[r]: http://u/x 'it\\'s \"q\"...'\n"),
    ("refdef-paren-title", "[qaa][r] qab\n\n[r]: http://u/x (it's \"q\"...)\n"),
    ("footnote-label", "qaa[^it's...] \"qab\"\n\n[^it's...]: qac's \"qad\"...\n"),
    ("table-code", '| "qaa" | `it\'s...` |\n|---|---|\n| qab\'s... | <b title="q\'s"> |\n'),
    ("heading-code", '# "qaa" `it\'s...` qab\'s\n\nqac\n'),
    ("fence-inner-run", "qaa\n\n````\n``` \"x\"...\n````\n\nqab\n"),
    ("two-paras-quote", '"qaa qab\n\nqac qad" qae\n'),
    ("tag-block", '{% qza k="it\'s..." %}\n"qaa" qab\'s... qac\n{% /qza %}\n'),
    ("code-formfeed", "qaa\n\n```\na\x0cb\nc\u2028d\ne\x1cf\x85g\n```\n\nqab\n"),
    ("code-vtab-cr", "qaa\n\n```\na\x0bb\n```\n\nqab\n"),
    ("refdef-angle", "[qaa][r] qab\n\n[r]: <http://u/a b> \"T\"\n"),
    ("footnote-multi", 'qaa[^n] "qab"\n\n[^n]: "qac qad\n\n    qae" qaf\'s\n\n    ```\n    "x" it\'s...\n    ```\n\n    "qag"...\n'),
    ("tag-softbreak", 'qaa {% qza\nk="1...5" j=\'a\' %} qab "qac"... qad\n'),
    ("comment-softbreak", 'qaa <!-- it\'s\n"x"...y --> qab\'s qac...\n'),
    ("code-softbreak", 'qaa `it\'s\n"x"...y` qab...\n'),
    ("dots-one-letter", "qaa...I...qab a...b...c qac\n"),
    ("dots-lines", "qaa...\n...qab\nqac ...\nqad\n"),
]


def verbatim(tier: str) -> Iterator[dict[str, Any]]:
    th = tier == "thorough"
    ctxs = [c for c in (K.K_ALL if th else ["top", "bullet", "quote"]) if c != "task"]
    for ctx in ctxs:
        for name, ws in VERBATIM_WORDS:
            for pos in ((0, 1, 2, 3) if th else (1, 3)):
                t = ['"qaa', 'qab"', "qac's", "qad..."]
                words = t[:pos] + ws + t[pos:]
                yield dict(key=f"verb/{ctx}/{name}@{pos}", fam="verb", ctx=ctx, special=name, words=words, plines=[" ".join(words)])
    for name, doc in VERBATIM_BLOCKS:
        yield dict(key=f"verbblock/{name}", fam="verbblock", special=name, doc=doc)
