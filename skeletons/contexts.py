"""Container contexts K: how a paragraph is embedded in a document, and the prefixes the output must carry."""
from __future__ import annotations

from dataclasses import dataclass


@dataclass(frozen=True)
class Ctx:
    name: str
    head_in: str        # source lines before the paragraph
    first_in: str       # source prefix of the paragraph's first line
    cont_in: str        # source prefix of its continuation lines
    head_out_lines: int  # number of output lines before the paragraph
    first_out: str      # expected output prefix of the first line
    cont_out: str       # expected output prefix of continuation lines


CONTEXTS: dict[str, Ctx] = {
    c.name: c
    for c in [
        Ctx("top", "", "", "", 0, "", ""),
        Ctx("quote", "", "> ", "> ", 0, "> ", "> "),
        Ctx("bullet", "", "- ", "  ", 0, "- ", "  "),
        Ctx("ordered", "", "1. ", "   ", 0, "1. ", "   "),
        Ctx("ordered10", "", "10. ", "    ", 0, "10. ", "    "),
        Ctx("ordered-gain", "9. qyy\n", "10. ", "    ", 1, "10. ", "    "),
        Ctx("ordered-gain100", "99. qyy\n", "100. ", "     ", 1, "100. ", "     "),
        Ctx("quote-bullet", "", "> - ", ">   ", 0, "> - ", ">   "),
        Ctx("nested", "- qyy\n", "  - ", "    ", 1, "  - ", "    "),
        Ctx("footnote", "", "[^n]: ", "    ", 0, "[^n]: ", "    "),
        Ctx("footnote-long", "", "[^qyy]: ", "    ", 0, "[^qyy]: ", "    "),
        Ctx("bullet-quote", "", "- > ", "  > ", 0, "- > ", "  > "),
        Ctx("ordered-bullet", "", "1. - ", "     ", 0, "1. - ", "     "),
        Ctx("quote-quote", "", "> > ", "> > ", 0, "> > ", "> > "),
        Ctx("footnote-bullet", "", "[^n]: - ", "      ", 0, "[^n]: - ", "      "),
        Ctx("deep", "", "> - 1. ", ">      ", 0, "> - 1. ", ">      "),
        Ctx("alert", "> [!NOTE]\n", "> ", "> ", 1, "> ", "> "),
        Ctx("task", "", "- [ ] ", "  ", 0, "- [ ] ", "  "),
    ]
}

K_QUICK = ["top", "quote", "bullet", "ordered", "ordered-gain", "footnote-long"]
K_ALL = list(CONTEXTS)


def embed(ctx: Ctx, para_lines: list[str]) -> str:
    out = ctx.head_in
    for i, ln in enumerate(para_lines):
        out += (ctx.first_in if i == 0 else ctx.cont_in) + ln + "\n"
    return out


def para_lines_of(ctx: Ctx, output: str) -> list[str]:
    lines = output.rstrip("\n").split("\n")
    return lines[ctx.head_out_lines :]
