"""
Skeleton vocabulary: paragraphs are lists of *words* (each atomic for the wrapper), built from
reserved tokens whose lengths are symbolic (see engines.symlen).

  plain token      q[a-z]{2}          a word of lowercase letters, symbolic length >= 1
  sentence end     qxy.  qxy?  qxy!   same + terminal punctuation (L >= 2: the heuristic needs 2 letters)
  hazard words     V_HAZ              Markdown markers that must not start a line unescaped
  atomic words     V_ATOM             constructs containing spaces that must stay on one line
  typography       V_TYPO             quotes / dots attached to tokens
"""
from __future__ import annotations

import itertools
from typing import Iterator

_ALPHA = "abcdefghijklmnoprstuvwyz"


def tok(i: int) -> str:
    """i-th plain token: qaa, qab, ..."""
    return "q" + _ALPHA[(i // len(_ALPHA)) % len(_ALPHA)] + _ALPHA[i % len(_ALPHA)]


def toks(n: int, start: int = 0) -> list[str]:
    return [tok(i) for i in range(start, start + n)]


# tokens used *inside* atomic constructs (distinct from prose tokens so lengths are independent)
def itok(i: int) -> str:
    return "qz" + _ALPHA[i % len(_ALPHA)]


V_HAZ = [
    "-", "+", "*", "1.", "1)", "12.", "#", "##", ">", ">qza", "--", "---", "=", "===", "***", "___",
    "```", "```qza", "~~~", "|", "|-|", ":-:", "<div>", "- -", "* * *",
]
# "- -" and "* * *" are several words; listed for the multi-word rule hazards and expanded by users.

V_ATOM = [
    "{% qza qzb %}",
    "{% /qza %}",
    "{# qza qzb #}",
    "{{ qza }}",
    "<!-- qza qzb -->",
    "`qza qzb`",
    "[qza qzb](http://u/qzc)",
    '![qza qzb](u "qzc qzd")',
    '<span a="b c">',
    "</span>",
    "<http://u/qza>",
    "http://u.example/qza",
]

V_TYPO = ['"qza', 'qzb"', "'qza'", "qza's", "qza...", "...qzb", 'qza..."']


def with_special(n: int, special: list[str], pos: int) -> list[str]:
    """n plain tokens with the word(s) `special` inserted before position pos."""
    t = toks(n)
    return t[:pos] + list(special) + t[pos:]


def sentence_patterns(n_words: int, ends: tuple[int, ...]) -> list[str]:
    """n plain tokens; the tokens at the positions in `ends` carry a full stop."""
    t = toks(n_words)
    return [w + "." if i in ends else w for i, w in enumerate(t)]


def all_end_sets(n_words: int, max_ends: int) -> Iterator[tuple[int, ...]]:
    for k in range(0, max_ends + 1):
        yield from itertools.combinations(range(n_words), k)
