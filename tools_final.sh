#!/bin/sh
# Dev-time: regenerate every quick evidence file from /verif against /repo, validate all JSON against the schemas.
cd "$(dirname "$0")"
./run_all.sh quick
.venv/bin/python - <<'PY'
import glob, json, jsonschema
ev = json.load(open('/root/.vp/EVIDENCE.schema.json'))
for p in sorted(glob.glob('evidence/*.json')):
    d = json.load(open(p)); jsonschema.validate(d, ev); print(p, d.get('tier'), d.get('violations'), d.get('repo_head'), d.get('wall_s'))
jsonschema.validate(json.load(open('MANIFEST.json')), json.load(open('/root/.vp/MANIFEST.schema.json'))); print('MANIFEST ok')
PY
