"""
CrossHair (E-CH) harnesses: each function calls a REAL flowmark kernel on symbolic strings and returns whether a
short, regex-free reference reader agrees.  `post: _ == True` is what CrossHair tries to refute.
Docstring conditions use module constants because CrossHair reads docstrings raw.
"""
from __future__ import annotations

NL = chr(10)
CR = chr(13)
FF = chr(12)
BS = chr(92)
DQ = chr(34)
SQ = chr(39)
BT = chr(96)
A_FM = "a-: " + CR + NL + FF
A_CODE = BT + "a ~"
A_SPAN = BT + "a "
A_SQ = "a " + SQ + DQ + "."
A_EL = "a. " + DQ
A_TITLE = DQ + BS + "a" + SQ
A_DEST = "()a <>" + BS


# ----------------------------------------------------------------------------------------- C07
def k_split_frontmatter(mid: str) -> bool:
    """
    pre: len(mid) <= 3
    pre: all(c in A_FM for c in mid)
    pre: all("".join(ln.split()) != "---" for ln in mid.replace(CR + NL, NL).split(NL))
    post: _ == True
    """
    from flowmark.formats.frontmatter import split_frontmatter

    text = "---" + NL + mid + NL + "---" + NL + "b"
    fm, content = split_frontmatter(text)
    want = ("---" + NL + mid + NL + "---" + NL).replace(CR + NL, NL)
    return fm == want and content == "b"


# ----------------------------------------------------------------------------------------- C04 / C12 / C01
def _read_fenced(rendered: str, first_prefix: str, prefix: str) -> list[str] | None:
    """reference reader of one fenced block under a container prefix; None if it is not exactly one block"""
    lines = rendered.split(NL)
    if not lines or lines[-1] != "":
        return None
    lines = lines[:-1]
    if not lines or not lines[0].startswith(first_prefix):
        return None
    head = lines[0][len(first_prefix):]
    ch = head[:1]
    if ch not in (BT, "~"):
        return None
    n = 0
    while n < len(head) and head[n] == ch:
        n += 1
    if n < 3:
        return None
    out = []
    bare = prefix.rstrip()
    for ln in lines[1:-1]:
        if ln.startswith(prefix):
            body = ln[len(prefix):]
        elif ln == bare:
            body = ""
        else:
            return None
        # a line that would close the fence early
        s = body.lstrip(" ")
        if len(body) - len(s) <= 3 and len(s) >= n and s.strip(" ") == ch * len(s.strip(" ")) and s.startswith(ch * n):
            return None
        out.append(body)
    last = lines[-1]
    if not last.startswith(prefix):
        return None
    tail = last[len(prefix):]
    if not (len(tail) >= n and tail == ch * len(tail)):
        return None
    return out


def k_render_code(l1: str, l2: str, pfx: int, tilde: bool, flen: int) -> bool:
    """
    pre: len(l1) <= 3 and len(l2) <= 2
    pre: all(c in A_CODE for c in l1) and all(c in A_CODE for c in l2)
    pre: 0 <= pfx <= 2 and 3 <= flen <= 4
    pre: l2 != "" and l2.strip() != ""
    post: _ == True
    """
    from flowmark.formats.flowmark_markdown import CustomFencedCode, MarkdownNormalizer
    from marko import inline

    first, cont = [("", ""), ("> ", "> "), ("- ", "  ")][pfx]
    r = MarkdownNormalizer.__new__(MarkdownNormalizer)
    r._prefix, r._second_prefix = first, cont
    r._skip_next_blank_line = False
    r._suppress_item_break = True
    el = CustomFencedCode.__new__(CustomFencedCode)
    el.lang, el.extra = "", ""
    el.children = [inline.RawText(l1 + NL + l2 + NL, False)]
    el.fence_char = "~" if tilde else BT
    el.fence_len = flen
    out = r._render_code(el)
    got = _read_fenced(out, first, cont)
    if got != [l1, l2]:
        return False
    # an empty code line gets no trailing space (the bare container prefix only)
    if l1 == "" and out.split(NL)[1] != cont.rstrip():
        return False
    return True


def _read_code_span(s: str) -> str | None:
    n = 0
    while n < len(s) and s[n] == BT:
        n += 1
    if n == 0:
        return None
    i = n
    while i < len(s):
        if s[i] == BT:
            j = i
            while j < len(s) and s[j] == BT:
                j += 1
            if j - i == n:
                if j != len(s):
                    return None
                c = s[n:i]
                if len(c) >= 2 and c[0] == " " and c[-1] == " " and c.strip(" ") != "":
                    c = c[1:-1]
                return c
            i = j
        else:
            i += 1
    return None


def k_render_code_span(c: str) -> bool:
    """
    pre: 1 <= len(c) <= 5
    pre: all(ch in A_SPAN for ch in c)
    pre: not (c[0] == " " and c[-1] == " ")
    post: _ == True
    """
    from flowmark.formats.flowmark_markdown import MarkdownNormalizer
    from marko import inline

    r = MarkdownNormalizer.__new__(MarkdownNormalizer)
    el = inline.CodeSpan.__new__(inline.CodeSpan)
    el.children = c
    return _read_code_span(r.render_code_span(el)) == c


def _read_title(s: str) -> str | None:
    if len(s) < 2 or s[0] != DQ or s[-1] != DQ:
        return None
    out, i, body = [], 0, s[1:-1]
    while i < len(body):
        ch = body[i]
        if ch == BS and i + 1 < len(body) and not (body[i + 1].isalnum() or body[i + 1] == " "):
            out.append(body[i + 1])
            i += 2
        elif ch == DQ:
            return None
        elif ch == BS and i + 1 == len(body):
            return None  # a trailing backslash would escape the closing quote
        else:
            out.append(ch)
            i += 1
    return "".join(out)


def k_title(t: str) -> bool:
    """
    pre: 1 <= len(t) <= 4
    pre: all(ch in A_TITLE for ch in t)
    post: _ == True
    """
    from flowmark.formats.flowmark_markdown import _normalize_title_quotes

    return _read_title(_normalize_title_quotes(t)) == t


# ----------------------------------------------------------------------------------------- C08 / C09
def k_smart_quotes(s: str) -> bool:
    """
    pre: len(s) <= 4
    pre: all(c in A_SQ for c in s)
    post: _ == True
    """
    from flowmark.typography.smartquotes import smart_quotes

    r = smart_quotes(s)
    if len(r) != len(s):
        return False
    for a, b in zip(s, r):
        if a != b and not ((a == SQ and b in "‘’") or (a == DQ and b in "“”")):
            return False
    return True


def k_smart_quotes_tag(s: str) -> bool:
    """
    pre: len(s) <= 3
    pre: all(c in A_SQ for c in s)
    post: _ == True
    """
    from flowmark.typography.smartquotes import smart_quotes

    tag = "{% " + s + " %}"
    r = smart_quotes("a " + tag + " b")
    return tag in r


def k_ellipses_idempotent(s: str) -> bool:
    """
    pre: len(s) <= 4
    pre: all(c in A_EL for c in s)
    post: _ == True
    """
    from flowmark.typography.ellipses import ellipses

    once = ellipses(s)
    return ellipses(once) == once


def k_ellipses_only_dots(s: str) -> bool:
    """
    pre: len(s) <= 4
    pre: all(c in A_EL for c in s)
    post: _ == True
    """
    from flowmark.typography.ellipses import ellipses

    r = ellipses(s)
    back = r.replace("…", "...")
    # identical up to spaces directly next to a three-dot run
    def squeeze(x: str) -> str:
        parts = x.split("...")
        return "...".join(p.strip(" ") if 0 < i < len(parts) - 1 else (p.rstrip(" ") if i == 0 and len(parts) > 1 else (p.lstrip(" ") if i == len(parts) - 1 and len(parts) > 1 else p)) for i, p in enumerate(parts))

    return squeeze(back) == squeeze(s)
