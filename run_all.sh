#!/bin/sh
# usage: run_all.sh quick|thorough [IDs...]   - runs every claimed check in turn, prints exit code and wall time
T="${1:-quick}"
shift 2>/dev/null
LIST="${*:-C05 C11 C01 C04 C06 C07 C08 C09 C14 C15 C16 C18 C17 C10 C12 C02 C03}"
cd "$(dirname "$0")"
for c in $LIST; do
  s=$(date +%s); ./vcheck $c --tier "$T" > "/tmp/all_${T}_$c.out" 2>&1; rc=$?; e=$(date +%s)
  echo "$c tier=$T exit=$rc wall=$((e-s))s known=$(grep -c KNOWN-FINDING /tmp/all_${T}_$c.out) viol=$(grep -c VIOLATION /tmp/all_${T}_$c.out) harness=$(grep -c HARNESS /tmp/all_${T}_$c.out)"
  grep -h "VIOLATION\|HARNESS" "/tmp/all_${T}_$c.out" | cut -c1-400 | head -8
done
