"""Regenerates MANIFEST.json from the table below (kept as code so it is always valid JSON)."""
import json, sys
sys.path.insert(0, "/verif")

CHECKS = {}
NA = {}

def chk(pid, cat, text, note, technique, design_ref, engine="symlen"):
    CHECKS[pid] = dict(
        property_id=pid,
        quick_cmd=f"./vcheck {pid} --tier quick",
        thorough_cmd=f"./vcheck {pid} --tier thorough",
        evidence_file=f"/verif/evidence/{pid}.json",
        replay_cmd_template=f"./vcheck {pid} --replay {{path}}",
        engine=engine,
        level_claimed=dict(category=cat, text=text, design_ref=design_ref),
        level_note=note,
        technique=technique,
    )

from manifest_table import fill
fill(chk, NA)

ALL = [f"C{i:02d}" for i in range(1, 19)]
for p in ALL:
    assert (p in CHECKS) != (p in NA), p

doc = dict(
    version=1,
    setup_cmd="./setup.sh",
    hooks=dict(
        guard="FLOWMARK_VERIF",
        enable="no source hooks: checks import /repo/src as is and inject symbolic lengths through public len_fn/line_wrapper parameters and harness-side namespace patches",
        baseline_off_cmd="cd /repo && /venv/bin/python -m pytest -ra -q -p no:cacheprovider --timeout=900 --continue-on-collection-errors",
        source_commits=[],
        add_only=True,
    ),
    engines=[
        dict(name="symlen", path="/verif/engines/symlen.py", serves_properties=sorted(p for p, c in CHECKS.items() if "symlen" in c["engine"]),
             kind_free_text="own dynamic symbolic executor: SymInt/SymBool proxies over z3 Int/Bool, fork on __bool__, depth-first re-execution of the real flowmark code, partition-completeness query per case"),
        dict(name="crosshair", path="/verif/engines/chrun.py", serves_properties=sorted(p for p, c in CHECKS.items() if "crosshair" in c["engine"]),
             kind_free_text="CrossHair 0.0.110 (symbolic str via z3) on harness functions calling the real kernels"),
        dict(name="re2smt/py2smt", path="/verif/engines/re2smt.py", serves_properties=sorted(p for p, c in CHECKS.items() if "re2smt" in c["engine"]),
             kind_free_text="live compiled regex objects and small string functions lifted into z3 sequence/regex theory"),
    ],
    checks=[CHECKS[p] for p in ALL if p in CHECKS],
    not_applicable=[dict(property_id=p, reason=NA[p]) for p in ALL if p in NA],
    notes="Solver-based checking of the real code. Exit 0 = held on everything discharged (KNOWN-FINDING lines for listed defects); 1 = reproduced unlisted violation; 3 = harness error / inconclusive core. See DESIGN.md.",
)
json.dump(doc, open("/verif/MANIFEST.json", "w"), indent=1)
print("checks:", sorted(CHECKS), "n/a:", sorted(NA))
