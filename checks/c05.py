"""
C05 - wrapping is lossless, width-bounded and maximal.

Symbolic (z3): every word length L_i >= 1, width W in Z, initial column, both indent lengths,
min_line_len.  Enumerated: number/kind of words, API entry point, container context, mode.
Real code executed: wrap_paragraph_lines, wrap_paragraph, fill_text, line_wrap_to_width,
line_wrap_by_sentence, and reformat_text (whole pipeline) for the document-level cases.
"""
from __future__ import annotations

import sys
from typing import Any

from oracles import wrapcheck as WC
from skeletons import contexts as K
from skeletons import words as V

MODULE = "checks.c05"

HAZ_Q = ["-", "1.", "#", ">"]
ATOM_Q = ["{% qza qzb %}", "`qza qzb`"]


# ------------------------------------------------------------------------------------------
# cases
# ------------------------------------------------------------------------------------------


def _word_variants(n: int, thorough: bool) -> list[tuple[str, list[str]]]:
    out = [("plain", V.toks(n))]
    haz = V.V_HAZ[:20] if thorough else HAZ_Q
    atoms = V.V_ATOM if thorough else ATOM_Q
    positions = range(0, n + 1) if thorough else (1, n // 2, n)
    for h in haz:
        if " " in h:
            continue
        for p in positions:
            out.append((f"haz[{h}]@{p}", V.with_special(n - 1, [h], min(p, n - 1))))
    for a in atoms:
        for p in positions:
            out.append((f"atom[{a}]@{p}", V.with_special(n - 1, [a], min(p, n - 1))))
    return out


def cases(tier: str) -> list[dict[str, Any]]:
    th = tier == "thorough"
    cs: list[dict[str, Any]] = []
    n = 7 if th else 5
    # A. wrap_paragraph_lines: symbolic initial column and subsequent offset
    for name, ws in _word_variants(n, th):
        for md in (True, False):
            if not md and name != "plain" and not name.startswith("atom"):
                continue
            for splitter in ("default", "simple"):
                if splitter == "simple" and name != "plain":
                    continue
                cs.append(dict(key=f"wpl/{name}/md={md}/{splitter}", kind="wpl", words=ws, md=md, splitter=splitter))
    if th:
        # deeper plain cases: 9 words (every break layout of 9 words with symbolic columns)
        for md in (True, False):
            cs.append(dict(key=f"wpl/plain9/md={md}/default", kind="wpl", words=V.toks(9), md=md, splitter="default", cost=50))
        cs.append(dict(key="wp/plain9/ind=both", kind="wp", words=V.toks(9), md=True, ind="both", cost=50))
    # B. wrap_paragraph with symbolic indents
    for name, ws in _word_variants(n, th)[: (None if th else 8)]:
        for ind in ("none", "both", "first", "next"):
            cs.append(dict(key=f"wp/{name}/ind={ind}", kind="wp", words=ws, md=True, ind=ind))
    # C. fill_text, every Wrap mode, two paragraphs, symbolic extra indent
    for mode in ("wrap", "wrap_full", "wrap_indent", "hanging_indent", "markdown_item"):
        for extra in (False, True):
            cs.append(dict(key=f"fill/{mode}/extra={extra}", kind="fill", mode=mode, extra=extra, paras=[V.toks(4 if not th else 5), V.toks(3, 10)]))
    cs.append(dict(key="fill/plaintext-api", kind="plaintext", paras=[V.toks(4 if not th else 6), V.toks(3, 10)]))
    # D. line_wrap_to_width (markdown): hard-break and tag-newline segments
    segs = [
        ("hard2", [V.toks(3), V.toks(3, 10)], "hard"),
        ("hard3", [V.toks(2), V.toks(2, 10), V.toks(2, 20)], "hard"),
        ("tagnl", [V.toks(2) + ["{% qza %}"], V.toks(3, 10)], "soft"),
        ("tagnl2", [V.toks(3), ["{% qza %}"] + V.toks(2, 10)], "soft"),
    ]
    if th:
        segs += [("hard2long", [V.toks(4), V.toks(4, 10)], "hard"), ("comment", [V.toks(2) + ["<!-- qza qzb -->"], V.toks(3, 10)], "soft")]
    for name, sg, brk in segs:
        for ind in ("none", "both"):
            cs.append(dict(key=f"lww/{name}/ind={ind}", kind="lww", segs=sg, brk=brk, ind=ind))
    # E. line_wrap_by_sentence with symbolic min_line_len
    nw = 7 if th else 5
    for ends in V.all_end_sets(nw - 1, 3 if th else 2):
        ws = V.sentence_patterns(nw, ends)
        for ind in ("none", "both"):
            cs.append(dict(key=f"lwbs/ends={ends}/ind={ind}", kind="lwbs", words=ws, ind=ind, sym_min=True))
    # F. document level: reformat_text in every container context, both modes
    ctxs = K.K_ALL if th else K.K_QUICK
    ctxs = [c for c in ctxs if c != "task"]
    nd = 7 if th else 5
    for ctx in ctxs:
        for sem in (False, True):
            docs = [("plain", V.toks(nd))]
            docs.append(("sent", V.sentence_patterns(nd, (1, 3))))
            docs.append(("sent1", V.sentence_patterns(nd, (2,))))
            if th:
                docs.append(("sent0", V.sentence_patterns(nd, (0, 1))))
                docs.append(("atom", V.with_special(nd - 1, ["{% qza qzb %}"], 2)))
                docs.append(("link", V.with_special(nd - 1, ["[qza qzb](http://u/qzc)"], 3)))
                docs.append(("code", V.with_special(nd - 1, ["`qza qzb`"], 1)))
            for name, ws in docs:
                cs.append(dict(key=f"doc/{ctx}/sem={sem}/{name}", kind="doc", ctx=ctx, sem=sem, words=ws))
            cs.append(dict(key=f"doc/{ctx}/sem={sem}/hard", kind="doc", ctx=ctx, sem=sem, segs=[V.toks(3), V.toks(3, 10)], brk="hard"))
            for gname, pair in (("tags", ["{% qza %}", "{% qzb %}"]), ("comments", ["<!-- qza -->", "<!-- qzb -->"])):
                ws = V.toks(2) + pair + V.toks(2, 10)
                cs.append(dict(key=f"doc/{ctx}/sem={sem}/adjacent-{gname}", kind="doc", ctx=ctx, sem=sem, words=ws, glued=[2]))
    # vacuity twins: a deliberately too-strong bound must be refuted and reproduce
    cs.append(dict(key="twin/wpl", kind="wpl", words=V.toks(4), md=True, splitter="default", twin=True))
    cs.append(dict(key="twin/doc", kind="doc", ctx="bullet", sem=False, words=V.toks(4), twin=True))
    cs.append(dict(key="twin/lwbs", kind="lwbs", words=V.sentence_patterns(4, (1,)), ind="both", sym_min=True, twin=True))
    return cs


# ------------------------------------------------------------------------------------------
# the harness: real code + obligations
# ------------------------------------------------------------------------------------------


def _indents(env: Any, ind: str) -> tuple[str, str]:
    first = env.text("QIA") if ind in ("both", "first") else ""
    nxt = env.text("QSA") if ind in ("both", "next") else ""
    return first, nxt


def _seg_text(segs: list[list[str]], brk: str) -> tuple[list[str], dict[int, str], str]:
    words: list[str] = []
    breaks: dict[int, str] = {}
    parts = []
    for i, sg in enumerate(segs):
        words += sg
        parts.append(" ".join(sg))
        if i + 1 < len(segs):
            breaks[len(words) - 1] = brk
    sep = "\\\n" if brk == "hard" else "\n"
    return words, breaks, sep.join(parts)


def _lines_per_segment(infos: list[WC.LineInfo], breaks: dict[int, str]) -> list[int]:
    counts = [0]
    for inf in infos:
        counts[-1] += 1
        if inf.last in breaks:
            counts.append(0)
    return [c for c in counts if c] if counts[-1] == 0 else counts


def _check_lines(env: Any, case: dict[str, Any], words: list[str], lines: list[str], W: Any, first_ind: str, next_ind: str,
                 first_off: Any, next_off: Any, fill: bool, breaks: dict[int, str] | None = None, tag: str = "", glued: set[int] | None = None) -> None:
    sentence_ends = None if fill else {i for i, w in enumerate(words) if w[-1:] in ".?!"}
    try:
        infos = WC.read_lines(words, lines, first_ind, next_ind, breaks, glued)
    except WC.Mismatch as m:
        env.prove(False, f"{tag}lossless:{m.kind}", str(m))
        return
    if case.get("twin"):
        # vacuity witness: the (false) claim "no line ever holds two words" must be refuted and reproduce
        env.prove(all(inf.last == inf.first for inf in infos), "width-bound", "twin")
        return
    WC.prove_wrap(env, env.len, infos, words, W, first_off, next_off, fill, breaks, tag, sentence_ends, glued)
    # width <= 0: exactly one line per paragraph / kept-newline segment
    nseg = 1 + len(breaks or {})
    if len(lines) != nseg:
        env.prove(W > 0, f"{tag}nowrap-one-line", {"lines": len(lines), "segments": nseg})


def run(env: Any, case: dict[str, Any]) -> Any:
    import flowmark.linewrapping.line_wrappers as lw
    import flowmark.linewrapping.text_filling as tf
    import flowmark.linewrapping.text_wrapping as tw

    kind = case["kind"]
    W = env.int("W")
    if kind == "wpl":
        words = [env.text(w) for w in case["words"]]
        text = " ".join(words)
        c0 = env.int("C0", lo=0)
        c1 = env.int("C1", lo=0)
        kw: dict[str, Any] = {}
        if case["splitter"] == "simple":
            kw["splitter"] = tw.simple_word_splitter
        lines = tw.wrap_paragraph_lines(text, W, initial_column=c0, subsequent_offset=c1, len_fn=env.len_fn, is_markdown=case["md"], **kw)
        _check_lines(env, case, words, lines, W, "", "", c0, c1, fill=True)
        return lines
    if kind == "wp":
        words = [env.text(w) for w in case["words"]]
        fi, ni = _indents(env, case["ind"])
        out = tw.wrap_paragraph(" ".join(words), W, initial_indent=fi, subsequent_indent=ni, len_fn=env.len_fn, is_markdown=case["md"])
        _check_lines(env, case, words, out.split("\n"), W, fi, ni, env.len(fi), env.len(ni), fill=True)
        return out
    if kind in ("fill", "plaintext"):
        paras = [[env.text(w) for w in p] for p in case["paras"]]
        text = "\n\n".join(" ".join(p) for p in paras)
        if kind == "plaintext":
            from flowmark import reformat_text

            out = reformat_text(text, width=W, plaintext=True)
            fi = ni = ""
            mode = tf.Wrap.WRAP
        else:
            mode = tf.Wrap(case["mode"])
            extra = env.text("QEA") if case["extra"] else ""
            out = tf.fill_text(text, mode, W, extra_indent=extra, len_fn=env.len_fn)
            fi = extra + mode.initial_indent
            ni = extra + mode.subsequent_indent
        got = out.split("\n\n")
        if len(got) != len(paras):
            env.prove(False, "lossless:paragraphs", f"{len(got)} paragraphs out, {len(paras)} in")
            return out
        for i, (p, g) in enumerate(zip(paras, got)):
            f_ind = ni if (i > 0 and mode.initial_indent_first_para_only) else fi
            _check_lines(env, case, p, g.split("\n"), W, f_ind, ni, env.len(f_ind), env.len(ni), fill=True, tag=f"p{i}:")
        return out
    if kind == "lww":
        segs = [[env.text(w) for w in sg] for sg in case["segs"]]
        words, breaks, text = _seg_text(segs, case["brk"])
        fi, ni = _indents(env, case["ind"])
        out = lw.line_wrap_to_width(width=W, len_fn=env.len_fn, is_markdown=True)(text, fi, ni)
        _check_lines(env, case, words, out.split("\n"), W, fi, ni, env.len(fi), env.len(ni), fill=True, breaks=breaks)
        return out
    if kind == "lwbs":
        words = [env.text(w) for w in case["words"]]
        fi, ni = _indents(env, case["ind"])
        kw = {}
        if case.get("sym_min"):
            kw["min_line_len"] = env.int("M", lo=0)
        out = lw.line_wrap_by_sentence(width=W, len_fn=env.len_fn, is_markdown=True, **kw)(" ".join(words), fi, ni)
        _check_lines(env, case, words, out.split("\n"), W, fi, ni, env.len(fi), env.len(ni), fill=False)
        return out
    if kind == "doc":
        from flowmark import reformat_text

        ctx = K.CONTEXTS[case["ctx"]]
        if "segs" in case:
            segs = [[env.text(w) for w in sg] for sg in case["segs"]]
            words, breaks, _ = _seg_text(segs, case["brk"])
            sep = "\\" if case["brk"] == "hard" else ""
            plines = [" ".join(sg) + (sep if i + 1 < len(segs) else "") for i, sg in enumerate(segs)]
        else:
            words = [env.text(w) for w in case["words"]]
            breaks = {}
            glued = set(case.get("glued") or [])
            plines = ["".join(w + ("" if i in glued else " ") for i, w in enumerate(words)).rstrip(" ")]
        doc = env.text(K.embed(ctx, plines))
        out = reformat_text(doc, width=W, semantic=case["sem"], cleanups=False)
        lines = K.para_lines_of(ctx, out)
        fo, co = env.text(ctx.first_out), env.text(ctx.cont_out)
        _check_lines(env, case, words, lines, W, fo, co, env.len(fo), env.len(co), fill=not case["sem"], breaks=breaks, glued=set(case.get("glued") or []))
        return out
    raise ValueError(kind)


# ------------------------------------------------------------------------------------------
# normal form of a finding
# ------------------------------------------------------------------------------------------


def key_fn(case: dict[str, Any], label: str, item: dict[str, Any], conc: dict[str, Any]) -> str:
    """(entry point family, mode) + the cause-specific obligation label."""
    fam = case["key"].split("/")[0]
    extra = ""
    if fam == "doc":
        extra = "/semantic" if case["sem"] else "/fill"
    elif fam == "fill":
        extra = f"/{case.get('mode', 'plaintext')}"
    return f"{fam}{extra}/{label}"


def main() -> int:
    from checks import common as C
    from engines import driver as D

    ev = C.Evidence("C05", "model_checking")
    cs = cases(C.tier())
    findings, harness = D.run_check("C05", MODULE, cs, ev, key_fn, sample_paths=6 if C.tier() == "quick" else 10, max_paths=30000)
    ev.add(
        rule="one case = (entry point, word kinds, context, mode); one state = one feasible break layout (path) of the real code with all lengths/width symbolic; "
        "transitions = solver-decided forks",
        functions_encoded=["text_wrapping.wrap_paragraph_lines", "text_wrapping.wrap_paragraph", "text_filling.fill_text", "line_wrappers.line_wrap_to_width",
                           "line_wrappers.line_wrap_by_sentence", "reformat_api.reformat_text (whole pipeline, Marko concrete)"],
        bounds="word lengths L>=1 (L>=2 before .?!), W in Z, C0,C1>=0, indent lengths >=1, min_line_len>=0 all unbounded; words per paragraph <= %d; see cases" % (7 if C.tier() == "thorough" else 5),
        sources=C.source_hashes(["src/flowmark/linewrapping/text_wrapping.py", "src/flowmark/linewrapping/line_wrappers.py", "src/flowmark/linewrapping/text_filling.py",
                                 "src/flowmark/formats/flowmark_markdown.py", "src/flowmark/reformat_api.py"]),
    )
    ev.assumptions += [
        "A1 content uniformity: a token behaves like any [a-z]+ word of the same length except through len_fn (validated per sampled path by replay on unpatched code)",
        "A2 sym_len agrees with len on instantiation (validated the same way)",
        "len_fn other than len is outside the claim (the hook is only the injection point)",
    ]
    return C.finish(ev, findings, harness)


if __name__ == "__main__":
    sys.exit(main())
