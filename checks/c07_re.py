"""
C07 E-RE lemma: the *current source* of formats.frontmatter.split_frontmatter, lifted (engines.symstr.lift: `in`,
`len`, `not`, `"\\n".join`) and executed under the symlen explorer on a document made of K symbolic lines (z3 strings),
compared with a short reference reading of "a block delimited by --- lines" written here in z3 terms:

  s  = first line that is not blank;            no such line, or line s is not  ws* "---" ws*   -> ("", text)
  e  = first line after s that is a delimiter;  none                                           -> (text, "")
  otherwise   frontmatter = lines s..e joined by "\\n" + "\\n"  (leading blank lines may or may not be kept),
              content     = the remaining lines joined by "\\n"   (give or take one final newline).

For every path through the real function and every reference case:  unsat( pre & path & case & result != expected ).
Bounds (stated): K <= 6 lines (4 in the quick tier), each line at most MAXLEN characters from printable ASCII plus
TAB (so str.strip() is exactly the modelled ASCII strip, and CR / exotic separators are left to the concrete blocks
of checks/c07.py); both "text ends in a newline" and "does not".  Every sat answer is replayed on the real function in
a fresh interpreter and reported only if it reproduces; a twin with a false claim must come back sat.
"""
from __future__ import annotations

import time
from typing import Any

import z3

MAXLEN = 8
NL = "\n"


def _alphabet() -> Any:
    return z3.Star(z3.Union(z3.Range(z3.StringVal(" "), z3.StringVal("~")), z3.Re(z3.StringVal("\t"))))


class SymText:
    """A document given as a list of symbolic lines; only what split_frontmatter needs, everything else refuses."""

    def __init__(self, lines: list[Any], trail: bool):
        self.lines, self.trail = lines, trail

    def replace(self, a: str, b: str) -> "SymText":
        from engines.symlen import HarnessError

        if (a, b) == ("\r\n", "\n"):
            return self  # no CR in the alphabet
        raise HarnessError(f"SymText.replace({a!r}, {b!r}) is not modelled")

    def split(self, sep: str) -> list[Any]:
        from engines.symlen import HarnessError

        if sep != "\n":
            raise HarnessError(f"SymText.split({sep!r}) is not modelled")
        return list(self.lines) + ([""] if self.trail else [])

    def splitlines(self) -> list[Any]:
        # within the alphabet (no CR, FF, VT, exotic separators) splitlines() == split("\n") without the final ""
        return list(self.lines)

    def term(self) -> Any:
        from engines.symstr import sterm

        parts: list[Any] = []
        for i, ln in enumerate(self.lines):
            if i:
                parts.append(z3.StringVal(NL))
            parts.append(sterm(ln))
        if self.trail:
            parts.append(z3.StringVal(NL))
        return z3.Concat(*parts) if len(parts) > 1 else parts[0]

    def __getattr__(self, n: str) -> Any:
        from engines.symlen import HarnessError

        raise HarnessError(f"SymText.{n} is not modelled")


def _term(v: Any) -> Any:
    from engines.symstr import SymStr

    if isinstance(v, SymText):
        return v.term()
    if isinstance(v, SymStr):
        return v.t
    if isinstance(v, str):
        return z3.StringVal(v)
    raise TypeError(f"split_frontmatter returned {type(v).__name__}")


def _join(xs: list[Any]) -> Any:
    if not xs:
        return z3.StringVal("")
    parts: list[Any] = []
    for i, t in enumerate(xs):
        if i:
            parts.append(z3.StringVal(NL))
        parts.append(t)
    return z3.Concat(*parts) if len(parts) > 1 else parts[0]


def _reference(xs: list[Any], trail: bool) -> list[tuple[str, Any, list[Any], list[Any]]]:
    """-> [(name, condition, allowed frontmatter terms, allowed content terms)]"""
    ws = z3.Star(z3.Union(*[z3.Re(z3.StringVal(c)) for c in " \t\n\r\x0b\x0c"]))
    blank = [z3.InRe(x, ws) for x in xs]
    delim = [z3.InRe(x, z3.Concat(ws, z3.Re(z3.StringVal("---")), ws)) for x in xs]
    text = z3.Concat(_join(xs), z3.StringVal(NL)) if trail else _join(xs)
    empty = z3.StringVal("")
    k = len(xs)
    cases: list[tuple[str, Any, list[Any], list[Any]]] = [("all-blank", z3.And(*blank), [empty], [text])]
    for s in range(k):
        lead = [blank[i] for i in range(s)] + [z3.Not(blank[s])]
        cases.append((f"start{s}-not-delimiter", z3.And(*lead, z3.Not(delim[s])), [empty], [text]))
        for e in range(s + 1, k):
            cond = z3.And(*lead, delim[s], *[z3.Not(delim[j]) for j in range(s + 1, e)], delim[e])
            fm = z3.Concat(_join(xs[s:e + 1]), z3.StringVal(NL))
            fm_all = z3.Concat(_join(xs[:e + 1]), z3.StringVal(NL))
            rest = _join(xs[e + 1:])
            cases.append((f"start{s}-close{e}", cond, [fm, fm_all], [rest, z3.Concat(rest, z3.StringVal(NL)), ("minus-nl", rest)]))
        cases.append((f"start{s}-unclosed", z3.And(*lead, delim[s], *[z3.Not(delim[j]) for j in range(s + 1, k)]), [text], [empty]))
    return cases


def _py_reference(lines: list[str], trail: bool) -> tuple[list[str], list[str]]:
    """the same reading on concrete lines (for the replay of a model): allowed frontmatters, allowed contents"""
    text = NL.join(lines) + (NL if trail else "")
    ws = " \t\n\r\x0b\x0c"
    s = next((i for i, ln in enumerate(lines) if ln.strip(ws) != ""), None)
    if s is None or lines[s].strip(ws) != "---":
        return [""], [text]
    e = next((j for j in range(s + 1, len(lines)) if lines[j].strip(ws) == "---"), None)
    if e is None:
        return [text], [""]
    rest = NL.join(lines[e + 1:])
    return [NL.join(lines[s:e + 1]) + NL, NL.join(lines[:e + 1]) + NL], [rest, rest + NL] + ([rest[:-1]] if rest.endswith(NL) else [])


def lemmas(ev: Any) -> tuple[list[Any], list[str], dict[str, Any]]:
    import flowmark.formats.frontmatter as FM
    from checks import common as C
    from engines import symlen as S
    from engines import symstr as SS

    t0 = time.time()
    th = C.tier() == "thorough"
    K = 6 if th else 4
    harness: list[str] = []
    findings: list[Any] = []
    info: dict[str, Any] = {"function": "flowmark.formats.frontmatter.split_frontmatter (lifted from current source)",
                            "bounds": f"K<={K} lines, each <= {MAXLEN} chars of printable ASCII + TAB; text with and without a final newline", "configs": {}}
    try:
        lifted = SS.lift(FM.split_frontmatter)
    except Exception as e:  # noqa: BLE001
        return [], [], {"status": "refused", "reason": f"{type(e).__name__}: {e}"[:300]}
    nq = nunsat = nunknown = 0
    sat_models: list[dict[str, Any]] = []
    twin_ok = 0
    for k in range(1, K + 1):
        for trail in (True, False):
            xs = [z3.String(f"x{i}") for i in range(k)]
            pre = [z3.And(z3.Length(x) <= MAXLEN, z3.InRe(x, _alphabet())) for x in xs]
            ex = S.Explorer(timeout_ms=30000)
            for c in pre:
                ex._assume_pre(c)

            def run(e: Any, xs: list[Any] = xs, trail: bool = trail) -> Any:
                e.notes["_fresh"] = 0
                fm, content = lifted(SymText([SS.SymStr(x) for x in xs], trail))
                return _term(fm), _term(content)

            try:
                paths = ex.explore(run, want_models=False)
            except (S.HarnessError, Exception) as e:  # noqa: BLE001
                return [], [], {"status": "refused", "reason": f"k={k}: {type(e).__name__}: {e}"[:300]}
            bad = [p for p in paths if p.exc is not None]
            if bad:
                # an exception escaping the real function on some document is itself a finding candidate: replay a model
                s = z3.Solver()
                s.add(*ex.pre, *bad[0].pc)
                if s.check() == z3.sat:
                    sat_models.append({"k": k, "trail": trail, "case": "raises", "lines": [s.model().eval(x, model_completion=True).as_string() for x in xs]})
                continue
            complete = ex.partition_complete(paths)
            if complete != "unsat":
                harness.append(f"C07-RE: path partition not complete for k={k} trail={trail} ({complete})")
            ref = _reference(xs, trail)
            # the reference cases must cover every document (else the lemma is silently partial)
            s = z3.Solver()
            s.set("timeout", 30000)
            s.add(*pre, z3.Not(z3.Or(*[c for _n, c, _f, _c in ref])))
            if s.check() != z3.unsat:
                harness.append(f"C07-RE: reference cases do not cover all documents for k={k}")
            for p in paths:
                fm_t, co_t = p.ret
                for name, cond, fms, cos in ref:
                    s = z3.Solver()
                    s.set("timeout", 20000)
                    s.add(*ex.pre, *p.pc, cond, z3.Not(z3.And(z3.Or(*[fm_t == f for f in fms]), z3.Or(*[(z3.Concat(co_t, z3.StringVal(NL)) == c[1]) if isinstance(c, tuple) else (co_t == c) for c in cos]))))
                    r = s.check()
                    nq += 1
                    if r == z3.unsat:
                        nunsat += 1
                    elif r == z3.sat:
                        sat_models.append({"k": k, "trail": trail, "case": name, "lines": [s.model().eval(x, model_completion=True).as_string() for x in xs]})
                    else:
                        nunknown += 1
                # twin: the false claim "no document has frontmatter" must be refuted on some path
                s = z3.Solver()
                s.set("timeout", 20000)
                s.add(*ex.pre, *p.pc, fm_t != z3.StringVal(""))
                if s.check() == z3.sat:
                    twin_ok += 1
            info["configs"][f"k{k}{'+nl' if trail else ''}"] = {"paths": len(paths), "cases": len(ref), "explorer_queries": ex.stats.queries}
    if twin_ok == 0:
        harness.append("C07-RE: vacuity twin - no path ever returns a frontmatter block")
    # replay every model on the real function (fresh interpreter), report what reproduces
    jobs = [{"op": "call", "module": "flowmark.formats.frontmatter", "name": "split_frontmatter", "args": [NL.join(m["lines"]) + (NL if m["trail"] else "")], "kwargs": {}} for m in sat_models]
    confirmed = 0
    seen: set[str] = set()
    for m, rr in zip(sat_models, C.replay_batch(jobs) if jobs else []):
        text = NL.join(m["lines"]) + (NL if m["trail"] else "")
        fms, cos = _py_reference(m["lines"], m["trail"])
        if "exc" in rr:
            ok = False
            got: Any = rr["exc"]
        else:
            got = rr["out"]
            ok = isinstance(got, (list, tuple)) and len(got) == 2 and got[0] in fms and got[1] in cos
        if ok:
            harness.append(f"C07-RE: model {text!r} for case {m['case']} does not reproduce on the real function (encoding error)")
            continue
        confirmed += 1
        key = f"lemma[split_frontmatter]/{m['case'].rstrip('0123456789').replace('start', 'start*').replace('close', 'close*')}"
        key = "lemma[split_frontmatter]/" + "".join(ch for ch in m["case"] if not ch.isdigit())
        if key in seen:
            continue
        seen.add(key)
        findings.append(C.Finding("C07", key, f"split_frontmatter({text!r}) = {got!r}; the block delimited by --- lines is {fms[0]!r} with content {cos[0]!r}",
                                  {"op": "call", "module": "flowmark.formats.frontmatter", "name": "split_frontmatter", "args": [text], "kwargs": {}, "expect_fm_in": fms, "expect_content_in": cos}))
    info.update(queries=nq, unsat=nunsat, unknown=nunknown, sat=len(sat_models), confirmed_by_replay=confirmed, twin_paths_with_frontmatter=twin_ok, wall_s=round(time.time() - t0, 1))
    if nunknown:
        info["note"] = "unknown answers are inconclusive, not passes"
    return findings, harness, info


if __name__ == "__main__":
    import json
    import sys

    f, h, i = lemmas(None)
    json.dump({"findings": [dict(prop=x.prop, key=x.key, what=x.what, replay=x.replay) for x in f], "harness": h, "info": i}, open(sys.argv[1], "w"), default=str)
    print(json.dumps(i, default=str)[:1500])
