"""
C11 - semantic line breaks fall at sentence ends and keep edits local.

Real code: reformat_text(semantic=True) (line_wrap_by_sentence + split_sentences_regex + wrap_paragraph_lines
inside the whole pipeline).  Symbolic: all word lengths, W.  Enumerated: sentence pattern, context, edit.
Reference notion of "sentence end": a token of >= 2 lowercase letters followed by . ? ! (optionally a closing
quote/paren) - written here independently of SENTENCE_END_RE; non-ends in the vocabulary: "e.g.", "1.", "qab:", "qab,".
"""
from __future__ import annotations

import re
import sys
from typing import Any

from oracles import wrapcheck as WC
from skeletons import contexts as K
from skeletons import words as V

MODULE = "checks.c11"
MIN_LINE_LEN = 20  # documented default of semantic mode (DEFAULT_MIN_LINE_LEN)

_END = re.compile(r"^.*[^\W\d_][^\W\d_A-Z](?:[.?!]['\"\u2019\u201d)]?|['\"\u2019\u201d)][.?!])$")


def is_end(word: str) -> bool:
    """Reference heuristic on skeleton words (tokens are 3 lowercase letters here; L>=2 is assumed for them)."""
    return bool(_END.match(word))


def _sentences(pattern: list[list[str]]) -> list[str]:
    return [w for s in pattern for w in s]


def _mk(k_words: list[int], start: int = 0, punct: str = ".") -> list[list[str]]:
    """sentences with k_words[i] words each, fresh tokens from `start`; last word of each gets `punct`."""
    out, n = [], start
    for k in k_words:
        ws = V.toks(k, n)
        n += k
        ws[-1] += punct
        out.append(ws)
    return out


def cases(tier: str) -> list[dict[str, Any]]:
    th = tier == "thorough"
    cs: list[dict[str, Any]] = []
    ctxs = (K.K_ALL if th else ["top", "bullet", "quote", "footnote-long"])
    ctxs = [c for c in ctxs if c != "task"]
    shapes = [[2, 2], [1, 2, 1], [3, 1], [1, 1, 2], [2, 1, 2]] + ([[2, 2, 2], [1, 3, 1, 1], [3, 3], [1, 1, 1, 1]] if th else [])
    for ctx in ctxs:
        for sh in shapes:
            cs.append(dict(key=f"place/{ctx}/{sh}", kind="place", ctx=ctx, sents=_mk(sh)))
        # punctuation variants and non-ends
        for name, sents in [
            ("quote-end", [[V.tok(0), V.tok(1) + '."'], [V.tok(2), V.tok(3) + "!"], [V.tok(4)]]),
            ("paren-end", [[V.tok(0), V.tok(1) + ".)"], [V.tok(2), V.tok(3) + "?"], [V.tok(4)]]),
            ("non-ends", [[V.tok(0), "e.g.", V.tok(1) + ":", V.tok(2) + ",", "1.", V.tok(3) + "."], [V.tok(4), V.tok(5)]]),
            ("curly-quote-end", [[V.tok(0), V.tok(1) + ".\u2019"], [V.tok(2), V.tok(3) + "!\u201d"], [V.tok(4), V.tok(5) + "\u2019."], [V.tok(6)]]),
            ("quote-paren-then-punct", [[V.tok(0), V.tok(1) + ")?"], [V.tok(2), V.tok(3) + '"!'], [V.tok(4), V.tok(5) + "')?"[0:1] + "?"], [V.tok(6), V.tok(7) + ")."], [V.tok(8)]]),
            ("non-ascii-end", [[V.tok(0), "caf\u00e9."], [V.tok(1), "\u043c\u0438\u0440!"], [V.tok(2), "na\u00efve?"], [V.tok(3)]]),
            ("code-with-backtick", [[V.tok(0), "``x`y``", V.tok(1) + "."], [V.tok(2), V.tok(3) + "."], [V.tok(4), V.tok(5) + "?"], [V.tok(6)]]),
            ("escaped-backtick", [[V.tok(0), chr(92) + "`", V.tok(1) + "."], [V.tok(2), V.tok(3) + "!"], [V.tok(4), V.tok(5) + "."], [V.tok(6)]]),
            ("code-spans-between", [[V.tok(0), "`x`", V.tok(1) + "."], [V.tok(2), "`y`."], [V.tok(3), V.tok(4) + "."], [V.tok(5)]]),
            ("emphasis-and-link-ends", [[V.tok(0), "*" + V.tok(1) + ".*"], [V.tok(2), "[x](u)."], [V.tok(3), "**" + V.tok(4) + "**."], [V.tok(5), V.tok(6) + "."], [V.tok(7)]]),
            ("upper-or-digit-non-end", [[V.tok(0), "ABC.", V.tok(1), "x1.", V.tok(2), "A.", V.tok(3) + "."], [V.tok(4)]]),
        ]:
            cs.append(dict(key=f"place/{ctx}/{name}", kind="place", ctx=ctx, sents=sents))
    # locality: edit sentence j (replace by fresh tokens, one word more or fewer)
    lshapes = [[1, 2, 1], [2, 1, 1], [1, 1, 2]] + ([[2, 2, 2], [2, 1, 2], [1, 1, 1, 1], [2, 2, 1, 1], [1, 2, 2]] if th else [])
    lctx = ["top", "bullet"] + (["quote", "footnote-long", "nested"] if th else [])
    for ctx in lctx:
        for sh in lshapes:
            for j in range(len(sh)):
                for delta in (0, 1, -1):
                    if sh[j] + delta < 1:
                        continue
                    a = _mk(sh)
                    b = [list(s) for s in a]
                    nw = V.toks(sh[j] + delta, 200)
                    nw[-1] += "."
                    b[j] = nw
                    cs.append(dict(key=f"local/{ctx}/{sh}/edit{j}{delta:+d}", kind="local", ctx=ctx, a=a, b=b, j=j))
    cs.append(dict(key="twin/place", kind="place", ctx="top", sents=_mk([2, 2]), twin=True))
    cs.append(dict(key="twin/local", kind="local", ctx="top", a=_mk([2, 2]), b=[_mk([2, 2])[0], [V.tok(200), V.tok(201) + "."]], j=1, twin=True))
    return cs


def _format(env: Any, ctx: K.Ctx, sents: list[list[str]], W: Any) -> tuple[list[str], list[str], list[WC.LineInfo] | None, str]:
    from flowmark import reformat_text

    words = [env.text(w) for w in _sentences(sents)]
    doc = env.text(K.embed(ctx, [" ".join(words)]))
    out = reformat_text(doc, width=W, semantic=True, cleanups=False)
    lines = K.para_lines_of(ctx, out)
    try:
        infos = WC.read_lines(words, lines, env.text(ctx.first_out), env.text(ctx.cont_out))
    except WC.Mismatch as m:
        env.prove(False, f"lossless:{m.kind}", str(m))
        return words, lines, None, out
    return words, lines, infos, out


def _prefix_len(env: Any, words: list[str], inf: WC.LineInfo, upto: int) -> Any:
    return env.len(" ".join(words[inf.first : upto + 1]))


def run(env: Any, case: dict[str, Any]) -> Any:
    W = env.int("W")
    ctx = K.CONTEXTS[case["ctx"]]
    if case["kind"] == "place":
        words, lines, infos, out = _format(env, ctx, case["sents"], W)
        if infos is None:
            return out
        ends = {i for i, w in enumerate(case_words(case["sents"])) if is_end(w)}
        fo, co = env.len(env.text(ctx.first_out)), env.len(env.text(ctx.cont_out))
        if case.get("twin"):
            env.prove(len(lines) == 1, "break-justified", "twin: claims the paragraph is never broken")
            return out
        for i, inf in enumerate(infos):
            off = fo if i == 0 else co
            # (1) a break is justified by a sentence end or by the width
            if i + 1 < len(infos) and inf.last not in ends:
                nxt = words[inf.last + 1]
                justified = (W > 0) & (off + env.len(inf.body) + 1 + env.len(nxt) > W)
                # narrowly described cause D: this line is the head of a sentence that was laid out to
                # continue a short previous line (from column indent+len(previous)), did not merge after
                # all, and kept the reduced-room layout
                cause_d: Any = False
                if i >= 1 and (inf.first - 1) in ends:
                    prev = infos[i - 1]
                    cause_d = (env.len(prev.body) < MIN_LINE_LEN) & (co + env.len(prev.body) + env.len(inf.body) + 1 + env.len(nxt) > W) & (W > 0)
                env.prove(justified | cause_d, "break-justified", {"line": i, "body": inf.body, "next": nxt})
                if cause_d is not False:
                    env.prove(justified | _not(cause_d), "break-justified:failed-merge-layout", {"line": i, "body": inf.body, "next": nxt})
            # (2) every sentence end strictly inside a line is excused only by a short line so far
            for k in range(inf.first, inf.last):
                if k in ends:
                    env.prove((W <= 0) | (_prefix_len(env, words, inf, k) < MIN_LINE_LEN), "sentence-end-breaks", {"line": i, "body": inf.body, "end": words[k]})
        return out
    if case["kind"] == "local":
        j = case["j"]
        wa, la, ia, oa = _format(env, ctx, case["a"], W)
        wb, lb, ib, ob = _format(env, ctx, case["b"], W)
        if ia is None or ib is None:
            return [oa, ob]
        if case.get("twin"):
            env.prove(la == lb, "edit-local:before", "twin: claims the edit changes nothing")
            return [oa, ob]

        def end_index(sents: list[list[str]], m: int) -> int:
            return sum(len(s) for s in sents[: m + 1]) - 1

        def line_of(infos: list[WC.LineInfo], widx: int) -> int:
            for n, inf in enumerate(infos):
                if inf.first <= widx <= inf.last:
                    return n
            raise AssertionError

        # (i) lines before the previous sentence's last line are identical
        if j >= 1:
            pa = line_of(ia, end_index(case["a"], j - 1))
            pb = line_of(ib, end_index(case["b"], j - 1))
            n = min(pa, pb)
            env.prove(la[:n] == lb[:n] and pa == pb, "edit-local:before", {"a": la, "b": lb, "prev_sentence_last_line": [pa, pb]})
        # (ii) after the first sentence m >= j that (in both versions) ends a line of >= MIN_LINE_LEN, lines are identical
        k = len(case["a"])
        for m in range(j, k - 1):
            ea, eb = end_index(case["a"], m), end_index(case["b"], m)
            na, nb = line_of(ia, ea), line_of(ib, eb)
            long_a = _prefix_len(env, wa, ia[na], ea) >= MIN_LINE_LEN
            long_b = _prefix_len(env, wb, ib[nb], eb) >= MIN_LINE_LEN
            same = la[na + 1 :] == lb[nb + 1 :] and ia[na].last == ea and ib[nb].last == eb
            env.prove((W <= 0) | _not(long_a) | _not(long_b) | same, "edit-local:after", {"a": la, "b": lb, "m": m})
        return [oa, ob]
    raise ValueError(case["kind"])


def _not(c: Any) -> Any:
    return (not c) if isinstance(c, bool) else ~c


def case_words(sents: list[list[str]]) -> list[str]:
    return [w for s in sents for w in s]


def key_fn(case: dict[str, Any], label: str, item: dict[str, Any], conc: dict[str, Any]) -> str:
    return f"{case['kind']}/{label}"


def main() -> int:
    from checks import common as C
    from engines import driver as D

    ev = C.Evidence("C11", "model_checking")
    cs = cases(C.tier())
    findings, harness = D.run_check("C11", MODULE, cs, ev, key_fn, sample_paths=4 if C.tier() == "quick" else 8, max_paths=40000)
    ev.add(
        rule="case = (context, sentence pattern[, edit]); state = feasible path (joint path of both versions for edits); obligations: break-justified, sentence-end-breaks, edit-local:before/after",
        functions_encoded=["line_wrappers.line_wrap_by_sentence", "sentence_split_regex.split_sentences_regex", "text_wrapping.wrap_paragraph_lines", "reformat_api.reformat_text (pipeline)"],
        bounds="word lengths >=1 (>=2 before sentence punctuation) and W unbounded; <=4 sentences, <=3 words each; min_line_len = documented default 20",
        sources=C.source_hashes(["src/flowmark/linewrapping/line_wrappers.py", "src/flowmark/linewrapping/sentence_split_regex.py", "src/flowmark/linewrapping/text_wrapping.py"]),
    )
    ev.assumptions += ["A1/A2 as in C05 (validated by replay)", "reference sentence-end notion: >=2 lowercase letters + [.?!] + optional closing quote/paren"]
    return C.finish(ev, findings, harness)


if __name__ == "__main__":
    sys.exit(main())
