"""
C16 - configuration precedence: explicit flag over config file over default.

merge   : real config.merge_cli_with_config on a real cli.Options record whose values are z3 Ints/Bools, with z3
          presence bits for "flag given", "config sets it" and --auto; reference = the three-level rule; per setting
          and pairwise (cross-talk).  Integer values are unbounded - that is where "for all" is real; presence bits
          are enumerated by solver forks (said openly).
e2e     : real cli.main(argv) in a temp dir holding a config file; effective values observed where they are consumed
          (kwargs reaching reformat_files, the FileResolverConfig given to FileResolver).  Covers _parse_args'
          explicit-flag detection ("even when passed with its default value"), --auto, and "every accepted key has
          an effect".
find    : real config.find_config_file on a duck-typed path whose is_file() answers from z3 Bools (3 directory levels
          x 3 file names) with _pyproject_has_flowmark_section stubbed by a z3 Bool per level; reference = nearest
          directory, .flowmark.toml > flowmark.toml > sectioned pyproject.toml.  Replay builds the real directories.
"""
from __future__ import annotations

import contextlib
import io
import itertools
import os
import shutil
import sys
import tempfile
from pathlib import Path
from typing import Any

MODULE = "checks.c16"

# setting -> (kind, default, cli flag builder, toml key, a non-default value, auto-locked?)
SETTINGS: dict[str, dict[str, Any]] = {
    "width": dict(kind="int", default=88, flag=lambda v: ["--width", str(v)], toml="width", other=61),
    "semantic": dict(kind="bool", default=False, flag=lambda v: ["--semantic"], toml="semantic", other=True, auto=True),
    "cleanups": dict(kind="bool", default=False, flag=lambda v: ["--cleanups"], toml="cleanups", other=True, auto=True),
    "smartquotes": dict(kind="bool", default=False, flag=lambda v: ["--smartquotes"], toml="smartquotes", other=True, auto=True),
    "ellipses": dict(kind="bool", default=False, flag=lambda v: ["--ellipses"], toml="ellipses", other=True, auto=True),
    "list_spacing": dict(kind="enum", default="preserve", flag=lambda v: ["--list-spacing", v], toml="list-spacing", other="tight"),
    "extend_include": dict(kind="list", default=[], flag=lambda v: sum((["--extend-include", x] for x in v), []), toml="extend-include", other=["*.mdx"]),
    "exclude": dict(kind="list", default=None, flag=lambda v: sum((["--exclude", x] for x in v), []), toml="exclude", other=["zzz/"]),
    "extend_exclude": dict(kind="list", default=[], flag=lambda v: sum((["--extend-exclude", x] for x in v), []), toml="extend-exclude", other=["drafts/"]),
    "files_max_size": dict(kind="int", default=1_048_576, flag=lambda v: ["--files-max-size", str(v)], toml="files-max-size", other=12345),
    "respect_gitignore": dict(kind="bool", default=True, flag=lambda v: ["--no-respect-gitignore"], toml="respect-gitignore", other=False),
    "force_exclude": dict(kind="bool", default=False, flag=lambda v: ["--force-exclude"], toml="force-exclude", other=True),
}
FORMAT_KEYS = ["width", "semantic", "cleanups", "smartquotes", "ellipses", "list_spacing"]
RESOLVER_KEYS = ["extend_include", "exclude", "extend_exclude", "files_max_size", "respect_gitignore", "force_exclude"]
NAMES = [".flowmark.toml", "flowmark.toml", "pyproject.toml"]


def cases(tier: str) -> list[dict[str, Any]]:
    th = tier == "thorough"
    cs: list[dict[str, Any]] = []
    for s in SETTINGS:
        cs.append(dict(key=f"merge/{s}", kind="merge", settings=[s]))
    pairs = list(itertools.combinations(SETTINGS, 2))
    if not th:
        pairs = [p for i, p in enumerate(pairs) if i % 3 == 0]
    for a, b in pairs:
        cs.append(dict(key=f"merge/{a}+{b}", kind="merge", settings=[a, b]))
    for s in SETTINGS:
        cs.append(dict(key=f"e2e/{s}", kind="e2e", setting=s))
    cs.append(dict(key="e2e/include", kind="e2e", setting="include"))
    for sect in (False, True):
        cs.append(dict(key=f"e2e/sections={sect}", kind="e2e-all", sections=sect))
    cs.append(dict(key="find/3x3", kind="find", levels=3 if th else 2))
    cs.append(dict(key="e2e/nearest-wins", kind="e2e-nearest"))
    cs.append(dict(key="twin/merge", kind="merge", settings=["width"], twin=True))
    return cs


# ------------------------------------------------------------------------------------------
# merge
# ------------------------------------------------------------------------------------------


def _sym_value(env: Any, name: str, kind: str, who: str) -> Any:
    if kind == "int":
        return env.int(f"{who}_{name}")
    if kind == "bool":
        return env.bool(f"{who}_{name}")
    if kind == "enum":
        sel = env.int(f"{who}_{name}_sel", 0, 2)
        v = "preserve"
        for i, x in enumerate(["preserve", "loose", "tight"]):
            if sel == i:
                v = x
        return v
    if kind == "list":
        # two distinguishable list values per side
        return [f"{who}-{name}-A"] if env.bool(f"{who}_{name}_alt") else [f"{who}-{name}-B"]
    raise ValueError(kind)


def _eq(a: Any, b: Any) -> Any:
    from engines import symlen as S

    if isinstance(a, (S.SymInt, S.SymBool)) or isinstance(b, (S.SymInt, S.SymBool)):
        if isinstance(a, (S.SymInt, S.SymBool, bool, int)) and isinstance(b, (S.SymInt, S.SymBool, bool, int)):
            return a == b
        return False
    return a == b


def _default_options() -> Any:
    import flowmark.cli as cli

    opts, _, _ = cli._parse_args(["x.md"])
    return opts


def _run_merge(env: Any, case: dict[str, Any]) -> Any:
    from flowmark.config import FlowmarkConfig, merge_cli_with_config

    opts = _default_options()
    cfg = FlowmarkConfig()
    explicit: set[str] = set()
    is_auto = env.bool("auto")
    expect: dict[str, Any] = {}
    for s in case["settings"]:
        meta = SETTINGS[s]
        cli_v = _sym_value(env, s, meta["kind"], "cli")
        cfg_v = _sym_value(env, s, meta["kind"], "cfg")
        setattr(opts, s, cli_v)
        given = bool(env.bool(f"given_{s}"))
        in_cfg = bool(env.bool(f"incfg_{s}"))
        if given:
            explicit.add(s)
        if in_cfg:
            setattr(cfg, s, cfg_v)
        expect[s] = (given, in_cfg, cli_v, cfg_v, bool(meta.get("auto")))
    before = {f: getattr(opts, f) for f in vars(opts)}
    auto_now = bool(is_auto)
    out = merge_cli_with_config(opts, cfg, is_auto, explicit)
    if case.get("twin"):
        env.prove(_eq(getattr(out, "width"), expect["width"][2]), "precedence:width", "twin: claims the CLI value always wins")
        return "twin"
    for s, (given, in_cfg, cli_v, cfg_v, locked) in expect.items():
        if given:
            want = cli_v
        elif auto_now and locked:
            want = cli_v
        elif in_cfg:
            want = cfg_v
        else:
            want = cli_v
        env.prove(_eq(getattr(out, s), want), f"precedence:{s}", f"given={given} auto={auto_now} in_config={in_cfg}")
    for f, v in before.items():
        if f not in expect:
            env.prove(getattr(out, f) is v or getattr(out, f) == v, f"cross-talk:{f}", f"untouched setting {f} changed while merging {case['settings']}")
    return "ok"


# ------------------------------------------------------------------------------------------
# end to end
# ------------------------------------------------------------------------------------------


@contextlib.contextmanager
def _observed(rec: dict[str, Any]):
    import flowmark.cli as cli
    import flowmark.file_resolver as fr

    real_rf, real_cls = cli.reformat_files, fr.FileResolver

    def fake_rf(**kw: Any) -> None:
        rec["reformat_files"] = kw

    class RecResolver(real_cls):  # type: ignore[misc, valid-type]
        def __init__(self, config: Any) -> None:
            rec["resolver_config"] = config
            super().__init__(config)

    cli.reformat_files = fake_rf
    fr.FileResolver = RecResolver
    try:
        yield
    finally:
        cli.reformat_files, fr.FileResolver = real_rf, real_cls


@contextlib.contextmanager
def _tmp_cwd():
    d = Path(tempfile.mkdtemp(prefix="c16_"))
    old = os.getcwd()
    os.chdir(d)
    err = io.StringIO()
    try:
        with contextlib.redirect_stdout(io.StringIO()), contextlib.redirect_stderr(err):
            yield d, err
    finally:
        os.chdir(old)
        shutil.rmtree(d, ignore_errors=True)


def _toml_value(v: Any) -> str:
    if isinstance(v, bool):
        return "true" if v else "false"
    if isinstance(v, int):
        return str(v)
    if isinstance(v, str):
        return f'"{v}"'
    return "[" + ", ".join(f'"{x}"' for x in v) + "]"


def _effective(rec: dict[str, Any]) -> dict[str, Any]:
    eff: dict[str, Any] = {}
    kw = rec.get("reformat_files") or {}
    for k in FORMAT_KEYS:
        v = kw.get(k)
        eff[k] = getattr(v, "value", v)
    rc = rec.get("resolver_config")
    if rc is not None:
        for k in RESOLVER_KEYS + ["include"]:
            eff[k] = getattr(rc, k)
    return eff


def _run_e2e(env: Any, case: dict[str, Any]) -> Any:
    import flowmark.cli as cli

    s = case["setting"]
    if s == "include":
        # accepted key without a command-line counterpart: must still have an effect
        with _tmp_cwd() as (d, err):
            (d / ".flowmark.toml").write_text('include = ["*.txt"]\n')
            (d / "a.md").write_text("x\n")
            rec: dict[str, Any] = {}
            with _observed(rec):
                code = cli.main(["--list-files", "."])
            warned = "unrecognized" in err.getvalue()
            eff = _effective(rec)
            env.prove(warned or eff.get("include") == ["*.txt"], "accepted-key-has-effect:include", {"effective": eff.get("include"), "stderr": err.getvalue()[:200], "exit": code})
        return "ok"
    meta = SETTINGS[s]
    given = bool(env.bool("given"))
    given_default = bool(env.bool("given_with_default_value"))
    in_cfg = bool(env.bool("in_config"))
    auto = bool(env.bool("auto"))
    where = env.int("cfgfile", 0, 2)
    fname = NAMES[0]
    for i in range(3):
        if where == i:
            fname = NAMES[i]
    flag_val = meta["default"] if given_default else meta["other"]
    argv: list[str] = []
    can_pass_default = meta["kind"] in ("int", "enum")  # store_true/append flags cannot spell their default
    if given:
        if given_default and not can_pass_default:
            flag_val = meta["other"]
        argv += meta["flag"](flag_val)
    if auto:
        argv.append("--auto")
    argv += ["--list-files", "."] if s in RESOLVER_KEYS else ["a.md"]
    # config value differs from both the default and the flag value where the domain allows it
    cfg_val = meta["other"]
    if meta["kind"] == "bool" and bool(env.bool("config_value_is_default")):
        cfg_val = meta["default"]
    if meta["kind"] == "int":
        cfg_val = meta["other"] + 7
    if meta["kind"] == "enum":
        cfg_val = "loose"
    if meta["kind"] == "list":
        cfg_val = ["cfg-" + x for x in meta["other"]]
    with _tmp_cwd() as (d, err):
        (d / "a.md").write_text("x\n")
        if in_cfg:
            line = f"{meta['toml']} = {_toml_value(cfg_val)}\n"
            if fname == "pyproject.toml":
                (d / fname).write_text("[tool.flowmark]\n" + line)
            else:
                (d / fname).write_text(line)
        rec = {}
        with _observed(rec):
            code = cli.main(list(argv))
        eff = _effective(rec)
    locked = bool(meta.get("auto"))
    if given:
        want = flag_val
        if s == "respect_gitignore":
            want = False
    elif auto and locked:
        want = True
    elif in_cfg:
        want = cfg_val
    else:
        want = meta["default"]
    env.prove(code == 0 and s in eff, f"precedence-e2e:{s}", {"argv": argv, "exit": code, "stderr": err.getvalue()[:200]})
    if s in eff:
        env.prove(eff[s] == want, f"precedence-e2e:{s}", {"argv": argv, "config": (fname if in_cfg else None), "config_value": cfg_val, "effective": eff[s], "want": want})
    return "ok"


def _run_e2e_all(env: Any, case: dict[str, Any]) -> Any:
    """every key at once (flat or in [formatting]/[file-discovery] sections), no flags: all take effect, none warns"""
    import flowmark.cli as cli

    with _tmp_cwd() as (d, err):
        (d / "a.md").write_text("x\n")
        fmt = "".join(f"{SETTINGS[k]['toml']} = {_toml_value(SETTINGS[k]['other'])}\n" for k in FORMAT_KEYS)
        disc = "".join(f"{SETTINGS[k]['toml']} = {_toml_value(SETTINGS[k]['other'])}\n" for k in RESOLVER_KEYS)
        text = ("[formatting]\n" + fmt + "\n[file-discovery]\n" + disc) if case["sections"] else fmt + disc
        (d / "flowmark.toml").write_text(text)
        eff: dict[str, Any] = {}
        for argv in (["a.md"], ["--list-files", "."]):
            rec: dict[str, Any] = {}
            with _observed(rec):
                cli.main(argv)
            for k, v in _effective(rec).items():
                if v is not None or k not in eff:
                    eff[k] = v
        env.prove("unrecognized" not in err.getvalue(), "accepted-key-has-effect:warning", err.getvalue()[:300])
        for k in FORMAT_KEYS + RESOLVER_KEYS:
            env.prove(eff.get(k) == SETTINGS[k]["other"], f"accepted-key-has-effect:{k}", {"effective": eff.get(k), "config": SETTINGS[k]["other"]})
    return "ok"


# ------------------------------------------------------------------------------------------
# find_config_file
# ------------------------------------------------------------------------------------------


class FakePath:
    """Duck-typed path: level 0 is the start directory, level n-1 the root; is_file() answers from the environment."""

    def __init__(self, env: Any, nlevels: int, level: int, name: str | None = None):
        self.env, self.n, self.level, self.name = env, nlevels, level, name

    def resolve(self) -> "FakePath":
        return self

    def __truediv__(self, name: str) -> "FakePath":
        return FakePath(self.env, self.n, self.level, name)

    @property
    def parent(self) -> "FakePath":
        if self.name is not None:
            return FakePath(self.env, self.n, self.level)
        return FakePath(self.env, self.n, min(self.level + 1, self.n - 1))

    @property
    def parents(self) -> list["FakePath"]:
        base = self.level if self.name is None else self.level - 1
        return [FakePath(self.env, self.n, lv) for lv in range(base + 1, self.n)]

    def joinpath(self, name: str) -> "FakePath":
        return self / name

    def exists(self) -> bool:
        return self.is_file() if self.name is not None else True

    def is_dir(self) -> bool:
        return self.name is None

    def __fspath__(self) -> str:
        return "/".join(["L%d" % lv for lv in range(self.n - 1, self.level - 1, -1)] + ([self.name] if self.name else []))

    __str__ = __fspath__

    def __eq__(self, o: Any) -> bool:
        return isinstance(o, FakePath) and (o.level, o.name) == (self.level, self.name)

    def __hash__(self) -> int:
        return hash((self.level, self.name))

    def is_file(self) -> bool:
        return bool(self.env.bool(f"exists_{self.level}_{NAMES.index(self.name)}"))


def _run_find(env: Any, case: dict[str, Any]) -> Any:
    import flowmark.config as cfg

    n = case["levels"]
    if env.symbolic:
        real = cfg._pyproject_has_flowmark_section
        cfg._pyproject_has_flowmark_section = lambda p: bool(env.bool(f"section_{p.level}"))
        try:
            got = cfg.find_config_file(FakePath(env, n, 0))
        finally:
            cfg._pyproject_has_flowmark_section = real
        got_key = None if got is None else (got.level, got.name)
    else:
        root = Path(tempfile.mkdtemp(prefix="c16f_"))
        try:
            dirs = [root]
            for _ in range(n - 1):
                dirs.append(dirs[-1] / "d")
            dirs = list(reversed(dirs))  # dirs[0] = deepest = level 0
            dirs[0].mkdir(parents=True, exist_ok=True)
            for lv in range(n):
                for i, nm in enumerate(NAMES):
                    if env.model.get(f"exists_{lv}_{i}"):
                        body = "width = 70\n"
                        if nm == "pyproject.toml":
                            body = "[tool.flowmark]\nwidth = 70\n" if env.model.get(f"section_{lv}") else "[tool.other]\nx = 1\n"
                        (dirs[lv] / nm).write_text(body)
            got = cfg.find_config_file(dirs[0])
            got_key = None
            if got is not None:
                for lv in range(n):
                    if got.parent == dirs[lv].resolve():
                        got_key = (lv, got.name)
                if got_key is None:
                    got_key = ("outside", str(got))
        finally:
            shutil.rmtree(root, ignore_errors=True)
    # reference: nearest level, fixed name order, pyproject only with a section.  In symbolic mode the bits are
    # read through env.bool so that each reference read is (at most) one more solver-decided fork.
    want = None
    for lv in range(n):
        for i, nm in enumerate(NAMES):
            if want is None and bool(env.bool(f"exists_{lv}_{i}")) and (nm != "pyproject.toml" or bool(env.bool(f"section_{lv}"))):
                want = (lv, nm)
    env.prove(got_key == want, "find-config:nearest-first", {"got": got_key, "want": want})
    return "ok"


def _run_e2e_nearest(env: Any, case: dict[str, Any]) -> Any:
    """the nearest config file wins even if it sets nothing that matters: a parent's settings must not leak in"""
    import flowmark.cli as cli

    near = env.int("near_kind", 0, 3)
    nk = 0
    for i in range(4):
        if near == i:
            nk = i
    # what sits in the cwd: 0 empty [tool.flowmark] table, 1 table with another key, 2 empty flowmark.toml, 3 .flowmark.toml with a comment only
    name, body = [("pyproject.toml", "[tool.flowmark]\n"), ("pyproject.toml", "[tool.flowmark]\nsemantic = true\n"), ("flowmark.toml", ""), (".flowmark.toml", "# nothing\n")][nk]
    with _tmp_cwd() as (d, err):
        (d / "flowmark.toml").write_text("width = 40\nellipses = true\n")
        sub = d / "proj" / "docs"
        sub.mkdir(parents=True)
        (d / "proj" / name).write_text(body)
        (sub / "a.md").write_text("x\n")
        os.chdir(sub)
        rec: dict[str, Any] = {}
        with _observed(rec):
            code = cli.main(["a.md"])
        os.chdir(d)
        eff = _effective(rec)
    env.prove(code == 0 and eff.get("width") == 88 and eff.get("ellipses") is False, "find-config:nearest-wins-e2e", {"nearest": name, "body": body, "effective": {k: eff.get(k) for k in ("width", "ellipses", "semantic")}})
    return "ok"


def run(env: Any, case: dict[str, Any]) -> Any:
    k = case["kind"]
    if k == "e2e-nearest":
        return _run_e2e_nearest(env, case)
    if k == "merge":
        return _run_merge(env, case)
    if k == "e2e":
        return _run_e2e(env, case)
    if k == "e2e-all":
        return _run_e2e_all(env, case)
    if k == "find":
        return _run_find(env, case)
    raise ValueError(k)


def key_fn(case: dict[str, Any], label: str, item: dict[str, Any], conc: dict[str, Any]) -> str:
    return f"{case['kind']}/{label}"


def what_fn(case: dict[str, Any], label: str, item: dict[str, Any], conc: dict[str, Any]) -> str:
    f = [x for x in conc.get("failed", []) if x["label"] == label]
    return f"{label}: {f[0]['detail'] if f else item.get('detail')} model={item['model']}"


def main() -> int:
    from checks import common as C
    from engines import driver as D

    ev = C.Evidence("C16", "model_checking")
    cs = cases(C.tier())
    findings, harness = D.run_check("C16", MODULE, cs, ev, key_fn, sample_paths=6, max_paths=20000, what_fn=what_fn)
    ev.add(
        rule="merge: state = path over presence bits with Int/Bool values symbolic; e2e: state = (flag given, given with default value, in config, --auto, config file name) "
        "chosen under solver forks; find: state = assignment of the existence/section bits; obligations: effective value == three-level reference rule, no cross-talk, accepted keys take effect",
        functions_encoded=["config.merge_cli_with_config", "config._parse_config_data / load_config", "config.find_config_file", "cli._parse_args", "cli.main (to the reformat_files / FileResolver boundary)"],
        bounds="12 settings singly and pairwise; config file in the cwd for e2e; %d directory levels x 3 file names for find; integer values unbounded in merge, fixed distinct constants in e2e" % (3 if C.tier() == "thorough" else 2),
        stubs=["cli.reformat_files -> recorder", "file_resolver.FileResolver -> recording subclass", "config._pyproject_has_flowmark_section -> z3 Bool per level (symbolic find only)"],
        sources=C.source_hashes(["src/flowmark/config.py", "src/flowmark/cli.py"]),
    )
    return C.finish(ev, findings, harness)


if __name__ == "__main__":
    sys.exit(main())
