"""
C04 - code, tags, URLs and other non-prose spans are reproduced verbatim.

E-INT sweep (this file): skeletons whose atomic constructs carry quotes and dots, in every container, ALL
typography options and cleanups on, both modes; symbolic lengths and width.  Oracle: the same literal-span
extractor (oracles/spans.py) applied to input and output; the sequences must be equal.  Also: a fence is long
enough (the re-read code block has the same lines).
E-CH kernels (harness/ch_c04.py) are run from main() as well.
"""
from __future__ import annotations

import sys
from typing import Any

from skeletons import docs as DOCS

MODULE = "checks.c04"


def cases(tier: str) -> list[dict[str, Any]]:
    cs = []
    fams = list(DOCS.verbatim(tier)) + [c for c in DOCS.blocks(tier)] + [c for c in DOCS.para_special(tier) if c["special"] in dict(DOCS.ATOMS) and c["ctx"] in ("top", "bullet")]
    for c in fams:
        for sem in (False, True):
            d = dict(c)
            d.update(sem=sem, key=c["key"] + ("/sem" if sem else "/fill"))
            cs.append(d)
    cs.append(dict(key="twin/verb", fam="verb", ctx="top", special="twin", plines=['"qaa" `qza`'], sem=False, twin=True))
    return cs


def run(env: Any, case: dict[str, Any]) -> Any:
    from flowmark import reformat_text
    from oracles.spans import literal_spans
    from oracles.tagblocks import separate_tag_blocks

    W = env.int("W")
    doc = env.text(DOCS.doc_of(case))
    out = reformat_text(doc, width=W, semantic=case["sem"], cleanups=True, smartquotes=True, ellipses=True)
    if case.get("twin"):
        env.prove(out == doc, "verbatim:twin", "twin: claims the output is the input")
        return out
    a, b = literal_spans(separate_tag_blocks(doc)), literal_spans(out)
    if a != b:
        i = next((k for k, (x, y) in enumerate(zip(a, b)) if x != y), min(len(a), len(b)))
        kind = (a[i][0] if i < len(a) else b[i][0]) if (a or b) else "none"
        env.prove(False, f"verbatim:{kind}", {"index": i, "in": a[i] if i < len(a) else None, "out": b[i] if i < len(b) else None, "output": out})
    else:
        env.prove(True, "verbatim")
    return out


def key_fn(case: dict[str, Any], label: str, item: dict[str, Any], conc: dict[str, Any]) -> str:
    return f"{DOCS.finding_class(case)}/{label}"


def what_fn(case: dict[str, Any], label: str, item: dict[str, Any], conc: dict[str, Any]) -> str:
    f = [x for x in conc.get("failed", []) if x["label"] == label]
    return f"{label} | case {case['key']} model={item['model']} detail={str(f[0]['detail'] if f else '')[:500]!r}"


def main() -> int:
    from checks import common as C
    from engines import driver as D

    ev = C.Evidence("C04", "model_checking")
    cs = cases(C.tier())
    findings, harness = D.run_check("C04", MODULE, cs, ev, key_fn, sample_paths=2 if C.tier() == "quick" else 4, max_paths=20000, what_fn=what_fn)
    from checks import c01_re

    f3, h3, re_info = c01_re.lemmas(ev, prop="C04", only_constructs=True)
    findings += f3
    harness += h3
    ev.add(escaper_leaves_constructs_alone_E_RE=re_info)
    from checks import c04_re

    f4, h4, fence_info = c04_re.lemma("C04")
    findings += f4
    harness += h4
    ev.add(fence_scan_covers_closing_candidates_E_RE=fence_info)
    kern = {}
    try:
        from checks import kernels

        f2, h2, kern = kernels.run_for("C04", ev)
        findings += f2
        harness += h2
    except ImportError:
        kern = {"status": "E-CH kernels not built in this revision"}
    ev.add(
        rule="case = (skeleton with quote/dot-carrying constructs, mode); state = feasible path; obligation: literal_spans(out) == literal_spans(in) with all typography options and cleanups ON",
        functions_encoded=["reformat_api.reformat_text with smartquotes, ellipses, cleanups (whole pipeline)"],
        bounds="vocabulary VERBATIM_WORDS x positions x contexts, VERBATIM_BLOCKS, BLOCKS, atom paragraphs; lengths and W unbounded",
        kernels=kern,
        sources=C.source_hashes(["src/flowmark/formats/flowmark_markdown.py", "src/flowmark/transforms/doc_transforms.py", "src/flowmark/typography/smartquotes.py",
                                 "src/flowmark/typography/ellipses.py", "src/flowmark/linewrapping/atomic_patterns.py", "src/flowmark/linewrapping/text_wrapping.py"]),
    )
    ev.assumptions += ["A1/A2 (validated by replay)", "Marko is the reader that delimits code spans, links, HTML; template tags are found by regex in text"]
    return C.finish(ev, findings, harness)


if __name__ == "__main__":
    sys.exit(main())
