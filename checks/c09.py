"""C09 - ellipsis conversion touches only three-dot runs in prose. Shares the differential harness of checks/c08.py."""
from __future__ import annotations

import sys
from typing import Any

from checks import c08

MODULE = "checks.c09"


def cases(tier: str) -> list[dict[str, Any]]:
    return c08.cases_for("C09", tier)


run = c08.run
key_fn = c08.key_fn

if __name__ == "__main__":
    sys.exit(c08.main("C09"))
