"""./vcheck <ID> --replay <file>: re-run a recorded counterexample against the real, unpatched code."""
from __future__ import annotations

import json
import sys

from checks import common as C


def main() -> int:
    prop, path = sys.argv[1], sys.argv[2]
    doc = json.loads(open(path).read())
    if doc["replay"].get("op") == "c18":
        from checks import c18

        rc = c18.replay_file(doc)
        print(f"VIOLATION property={prop} replay={path}  key={doc.get('key')}" if rc else "replay: no violation reproduced")
        return rc
    job = {k: v for k, v in doc["replay"].items() if k != "label"}
    rr = C.replay_batch([job])[0]
    label = doc["replay"].get("label")
    print(json.dumps(rr, indent=1)[:4000])
    if rr.get("timeout"):
        bad = bool(label) and label.startswith("terminates:")
    elif label and label.startswith("exception:"):
        bad = "exc" in rr
    elif "failed" in rr:
        bad = any(f["label"] == label for f in rr["failed"]) if label else bool(rr["failed"])
    else:
        bad = bool(rr.get("violations"))
    if bad:
        print(f"VIOLATION property={prop} replay={path}  key={doc.get('key')}")
        return 1
    print("replay: no violation reproduced")
    return 0


if __name__ == "__main__":
    sys.exit(main())
