"""
C01 - formatting preserves the meaning of the document.

C01-a (E-INT, this file): shape(format(d)) == shape(d) on every feasible path of the real pipeline for each
document skeleton, all word lengths and the width symbolic; options exactly as the property quantifies
(cleanups off, list_spacing=preserve, typography off), both line-break modes.
C01-b / C01-c (E-RE / E-CH) live in checks/c01_re.py and harness/ch_c01.py and are run from main() too.
"""
from __future__ import annotations

import sys
from typing import Any

from skeletons import docs as DOCS

MODULE = "checks.c01"

_shape_cache: dict[str, Any] = {}


def _shape(text: str) -> Any:
    from oracles.mdshape import shape

    s = _shape_cache.get(text)
    if s is None:
        s = shape(text)
        if len(_shape_cache) < 50000:
            _shape_cache[text] = s
    return s


def cases(tier: str) -> list[dict[str, Any]]:
    cs = []
    for c in DOCS.all_families(tier):
        for sem in (False, True):
            d = dict(c)
            d["sem"] = sem
            d["key"] = c["key"] + ("/sem" if sem else "/fill")
            cs.append(d)
    # vacuity twin: the (false) claim "the output is byte-identical to the input" must be refuted
    cs.append(dict(key="twin/para", fam="para", ctx="top", special="twin", plines=["qaa qab qac qad"], sem=False, twin=True))
    return cs


def run(env: Any, case: dict[str, Any]) -> Any:
    from flowmark import reformat_text
    from oracles.mdshape import first_diff, kind_of_diff

    W = env.int("W")
    doc = env.text(DOCS.doc_of(case))
    out = reformat_text(doc, width=W, semantic=case["sem"], cleanups=False, smartquotes=False, ellipses=False)
    if case.get("twin"):
        env.prove(out == doc, "shape:twin", "twin")
        return out
    from oracles.tagblocks import separate_tag_blocks

    s_in, s_out = _shape(separate_tag_blocks(doc)), _shape(out)
    if s_in != s_out:
        env.prove(False, "shape:" + kind_of_diff(s_in, s_out), first_diff(s_in, s_out)[:300])
    else:
        env.prove(True, "shape")
    return out


def key_fn(case: dict[str, Any], label: str, item: dict[str, Any], conc: dict[str, Any]) -> str:
    # where the special word sits in its paragraph matters: the first word of a paragraph is never
    # escaped (it was at a line start in the source too), inner words can be pushed to a line start
    cls = DOCS.finding_class(case)
    if cls in ("first-word-alone", "sentence-initial-marker"):
        label = "shape"  # whichever block the lone word turns into
    return f"{cls}/{label}"


def what_fn(case: dict[str, Any], label: str, item: dict[str, Any], conc: dict[str, Any]) -> str:
    return f"{label}: {item.get('detail')} | case {case['key']} model={item['model']} output={conc.get('out')!r}"


def main() -> int:
    from checks import common as C
    from engines import driver as D

    ev = C.Evidence("C01", "model_checking")
    cs = cases(C.tier())
    findings, harness = D.run_check("C01", MODULE, cs, ev, key_fn, sample_paths=3 if C.tier() == "quick" else 6, max_paths=20000, what_fn=what_fn)
    from checks import c01_re

    f2, h2, re_info = c01_re.lemmas(ev)
    findings += f2
    harness += h2
    ev.add(escaper_completeness_E_RE=re_info)
    ev.add(
        rule="case = (document skeleton, mode); state = feasible path = one break layout of the whole document; obligation per path: shape(out)==shape(in) under flowmark's own parser",
        functions_encoded=["reformat_api.reformat_text -> markdown_filling.fill_markdown -> MarkdownNormalizer.render_* -> line wrappers (whole pipeline; Marko concrete, lengths symbolic)"],
        bounds="skeleton families para/para2/hardbreak/tagnl/soft/block (see skeletons/docs.py); all token lengths >=1 and W in Z unbounded",
        sources=C.source_hashes(["src/flowmark/formats/flowmark_markdown.py", "src/flowmark/linewrapping/text_wrapping.py", "src/flowmark/linewrapping/line_wrappers.py",
                                 "src/flowmark/linewrapping/tag_handling.py", "src/flowmark/linewrapping/markdown_filling.py"]),
    )
    ev.assumptions += ["A1/A2 (validated per sampled path by replay on unpatched code)", "Marko (flowmark_markdown().parse) is the reader that defines 'same document'"]
    return C.finish(ev, findings, harness)


if __name__ == "__main__":
    sys.exit(main())
