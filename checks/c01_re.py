"""
C01-b - line-start escaping is complete (E-RE: z3 sequence/regex theory on the live escaper).

The REAL markdown_escape_word is executed on a symbolic word (engines.symstr.SymStr) with the two live module
patterns replaced by proxies translated from the compiled pattern objects (engines.re2smt); the explorer forks on
`pattern.match(word)` and yields the function as [(path condition, result term)].  For every path and every
CommonMark block-start family (my own regexes) one query asks for a word w (no whitespace, 1..16 chars) and a rest
of line r (<= 16 chars, no newline) such that  esc(w) (+ " " + r)?  is a block start.  unsat everywhere = the
escaper is complete within the bound.  A sat model is replayed through reformat_text (paragraph + width that puts
w first on a continuation line, shape comparison); only a reproduced change of document structure is reported.
Translation validation both ways on every run: corpus strings pinned into the encoding must give the real
function's result; one model per path must be mapped by the real function to that path's result.
"""
from __future__ import annotations

import re
import time
from typing import Any

import z3

MAXW, MAXR = 16, 16

FAMILIES: dict[str, tuple[str, bool]] = {
    # name: (regex over the whole line, True if the line must also be the last of its paragraph to matter)
    "bullet": (r"[-+*]([ \t].*)?", False),
    "ordered": (r"[0-9]{1,9}[.)]([ \t].*)?", False),
    "atx": (r"#{1,6}([ \t].*)?", False),
    "quote": (r">.*", False),
    "fence-backtick": (r"`{3,}[^`]*", False),
    "fence-tilde": (r"~{3,}.*", False),
    "rule": (r"(\*[ \t]*){3,}|(-[ \t]*){3,}|(_[ \t]*){3,}", False),
    "setext": (r"=+[ \t]*|-+[ \t]*", False),
    # GFM table delimiter row (needs a header line with the same number of cells above it; at least one pipe)
    "table-delim": (r"[ \t]*(\|[ \t]*)?:?-+:?[ \t]*(\|[ \t]*:?-+:?[ \t]*)*\|[ \t]*(:?-+:?[ \t]*)?", False),
}

# whole-word atomic constructs (no whitespace inside, as the splitter hands them over): the escaper must not touch them
CONSTRUCTS: dict[str, str] = {
    "code-span-1": r"`[^`]+`",
    "code-span-2": r"``(?:[^`]|`[^`])+``",
    "code-span-3": r"```(?:[^`]|`[^`]|``[^`])+```",
    "code-span-4": r"````(?:[^`]|`{1,3}[^`])+````",
    "jinja-tag": r"\{%[^%]*%\}",
    "jinja-comment": r"\{#[^#]*#\}",
    "jinja-var": r"\{\{[^}]*\}\}",
    "html-comment": r"<!--[^-]*-->",
    "html-tag": r"</?[a-zA-Z][^>]*>",
    "link": r"\[[^\]]*\]\([^)]*\)",
    "image": r"!\[[^\]]*\]\([^)]*\)",
    "strong": r"\*\*[A-Za-z]+\*\*",
    "em-underscore": r"_[A-Za-z]+_",
    "strike": r"~~[A-Za-z]+~~",
}

CORPUS = ["-", "+", "*", ">", "#", "##", "1.", "12)", "a", "-x", "--", "---", "===", "=", "***", "**", "___", "__", "_", "```", "```py", "~~~", ">q", "1.x", "#x", "1", ".", "\\-", "a-", "9999999999.", ""]


def _explore() -> tuple[list[tuple[list[Any], Any]], Any, dict[str, Any]]:
    import flowmark.linewrapping.text_wrapping as tw
    from engines import symlen as S
    from engines.symstr import PatternProxy, SymStr

    w = z3.String("w")
    real = {n: v for n, v in vars(tw).items() if isinstance(v, re.Pattern)}   # every module-level compiled pattern
    proxies = {n: PatternProxy(p) for n, p in real.items()}
    ex = S.Explorer(timeout_ms=30000)

    def fn(e: Any) -> Any:
        return tw.markdown_escape_word(SymStr(w))

    for n, p in proxies.items():
        setattr(tw, n, p)
    try:
        paths = ex.explore(fn, want_models=False)
    finally:
        for n, p in real.items():
            setattr(tw, n, p)
    out = []
    for p in paths:
        if p.exc is not None:
            raise RuntimeError(f"escaper raised on a symbolic path: {p.exc!r}")
        r = p.ret
        out.append((p.pc, r.t if isinstance(r, SymStr) else z3.StringVal(r)))
    info = {"paths": len(out), "queries": ex.stats.queries, "patterns": {n: p.pattern for n, p in real.items()}, "complete": ex.partition_complete(paths)}
    return out, w, info


def lemmas(ev: Any, prop: str = "C01", only_constructs: bool = False) -> tuple[list[Any], list[str], dict[str, Any]]:
    import flowmark.linewrapping.text_wrapping as tw
    from checks import common as C
    from engines import re2smt

    t0 = time.time()
    harness: list[str] = []
    findings: list[Any] = []
    try:
        paths, w, info = _explore()
    except (re2smt.TranslationRefused, Exception) as e:  # noqa: BLE001
        # the code changed shape in a way the encoder does not support: the lemma is NOT discharged (recorded), the
        # document sweep remains the deciding part of the check
        return [], [], {"status": "refused", "reason": f"{type(e).__name__}: {e}"[:300]}
    if info["complete"] != "unsat":
        harness.append(f"C01-b: path partition of markdown_escape_word not complete ({info['complete']})")
    r = z3.String("r")
    nows = z3.Star(z3.Intersect(re2smt.ANY_CHAR, z3.Complement(z3.Union(*[z3.Re(z3.StringVal(c)) for c in " \t\n\r\x0b\x0c"]))))
    nonl = z3.Star(z3.Intersect(re2smt.ANY_CHAR, z3.Complement(z3.Re(z3.StringVal("\n")))))
    pre = [z3.InRe(w, nows), z3.Length(w) >= 1, z3.Length(w) <= MAXW, z3.InRe(r, nonl), z3.Length(r) <= MAXR]
    # ---- translation validation, real -> SMT
    tv = 0
    for s_ in CORPUS:
        if not s_:
            continue
        hit = 0
        for pc, ret in paths:
            s = z3.Solver()
            s.set("timeout", 20000)
            s.add(w == z3.StringVal(s_), *pc)
            if s.check() == z3.sat:
                hit += 1
                got = s.model().eval(ret, model_completion=True).as_string()
                if got != tw.markdown_escape_word(s_):
                    harness.append(f"C01-b translation validation: encoding maps {s_!r} to {got!r}, real function to {tw.markdown_escape_word(s_)!r}")
        if hit != 1:
            harness.append(f"C01-b translation validation: {s_!r} satisfies {hit} path conditions (expected exactly 1)")
        tv += 1
    # ---- SMT -> real
    for pc, ret in paths:
        s = z3.Solver()
        s.set("timeout", 20000)
        s.add(*pre, *pc)
        if s.check() == z3.sat:
            m = s.model()
            wv = m.eval(w, model_completion=True).as_string()
            if m.eval(ret, model_completion=True).as_string() != tw.markdown_escape_word(wv):
                harness.append(f"C01-b translation validation: path model {wv!r} disagrees with the real function")
            tv += 1
    # ---- hazard queries
    cvc = {"agree": 0, "disagree": 0, "unknown_or_timeout": 0, "queries": 0}
    pending: list[tuple[str, str, str]] = []   # (what, smt2 text, z3 verdict)

    def second_opinion(solver: Any, z3_res: Any, what: str) -> None:
        pending.append((what, solver.to_smt2(), str(z3_res)))

    nq = nunsat = 0
    sat_models: list[dict[str, Any]] = []
    solver_s = 0.0
    for fam, (rx, _last) in ({} if only_constructs else FAMILIES).items():
        lang = re2smt.fullmatch_lang(re.compile(rx, re.DOTALL))
        for pi, (pc, ret) in enumerate(paths):
            for with_rest in (False, True):
                line = z3.Concat(ret, z3.StringVal(" "), r) if with_rest else ret
                s = z3.Solver()
                s.set("timeout", 60000)
                s.add(*pre, *pc, z3.InRe(line, lang))
                if not with_rest:
                    s.add(r == z3.StringVal(""))
                # up to 4 models per query (blocking the word found) so that more than one witness class is replayed
                for _round in range(4):
                    t1 = time.time()
                    res = s.check()
                    solver_s += time.time() - t1
                    nq += 1
                    if _round == 0:
                        second_opinion(s, res, f"family {fam} path {pi} rest={with_rest}")
                    if res == z3.unsat:
                        if _round == 0:
                            nunsat += 1
                        break
                    if res != z3.sat:
                        harness.append(f"C01-b: solver returned unknown for family {fam} path {pi}")
                        break
                    m = s.model()
                    wv = m.eval(w, model_completion=True).as_string()
                    sat_models.append(dict(family=fam, path=pi, w=wv, r=m.eval(r, model_completion=True).as_string() if with_rest else None))
                    s.add(w != z3.StringVal(wv), z3.Length(w) != len(wv))
    # ---- constructs are left alone: for every construct family, esc(w) == w on every path
    construct_sat: list[dict[str, Any]] = []
    ncq = 0
    for fam, rx in CONSTRUCTS.items():
        lang = re2smt.fullmatch_lang(re.compile(rx, re.DOTALL))
        for pi, (pc, ret) in enumerate(paths):
            s = z3.Solver()
            s.set("timeout", 60000)
            s.add(*pre[:3], *pc, z3.InRe(w, lang), ret != w)
            t1 = time.time()
            res = s.check()
            solver_s += time.time() - t1
            ncq += 1
            second_opinion(s, res, f"construct {fam} path {pi}")
            if res == z3.sat:
                construct_sat.append(dict(family=fam, path=pi, w=s.model().eval(w, model_completion=True).as_string()))
            elif res != z3.unsat:
                harness.append(f"C01-b: solver returned unknown for construct {fam} path {pi}")
    # ---- second solver (thorough tier): cvc5 on the same SMT-LIB text, one process per query under a hard limit
    if C.tier() == "thorough" and pending:
        from engines.crosscheck import cvc5_verdicts

        for (what, _t, zres), v in zip(pending, cvc5_verdicts([t for _w, t, _z in pending])):
            cvc["queries"] += 1
            if v in ("sat", "unsat"):
                if v == zres:
                    cvc["agree"] += 1
                else:
                    cvc["disagree"] += 1
                    harness.append(f"C01-b: z3 says {zres}, cvc5 says {v} for {what}")
            else:
                cvc["unknown_or_timeout"] += 1
    # ---- vacuity: each family regex is satisfiable on its own, and the unescaped identity WOULD be hazardous
    for fam, (rx, _l) in FAMILIES.items():
        s = z3.Solver()
        s.add(z3.InRe(w, re2smt.fullmatch_lang(re.compile(rx, re.DOTALL))), z3.Length(w) <= MAXW)
        if s.check() != z3.sat:
            harness.append(f"C01-b vacuity: family {fam} is unsatisfiable on its own")
    # ---- replay sat models through the public API
    jobs, meta = [], []
    for sm in sat_models:
        tail = sm["w"] + ((" " + sm["r"]) if sm["r"] else "")
        first = "a" * max(4, len(tail))
        if sm["family"] == "table-delim":
            ncell = len([c for c in tail.strip().strip("|").split("|")])
            cells = ["aa"] * max(ncell, 1)
            first = " | ".join(cells) if len(cells) > 1 else "| aa |"
            if len(first) < len(tail):
                first = "a" * (len(tail) - len(first)) + first
        doc = f"{first} {tail}\n"
        for sem in (False, True):
            jobs.append({"op": "reformat_text", "text": doc, "kwargs": {"width": len(first), "semantic": sem, "cleanups": False}})
            meta.append((sm, doc, sem, len(first)))
    for cs in construct_sat:
        first = "a" * max(4, len(cs["w"]))
        doc = f"{first} {cs['w']}\n"
        for sem in (False, True):
            jobs.append({"op": "reformat_text", "text": doc, "kwargs": {"width": len(first), "semantic": sem, "cleanups": False}})
            meta.append((dict(family="construct:" + cs["family"], w=cs["w"], r=None), doc, sem, len(first)))
    res = C.replay_batch(jobs) if jobs else []
    from oracles.mdshape import kind_of_diff, shape

    confirmed = spec_only = 0
    for (sm, doc, sem, width), rr in zip(meta, res):
        if "exc" in rr:
            harness.append(f"C01-b replay raised: {rr['exc']}")
            continue
        out = rr["out"]
        from oracles.spans import literal_spans

        if shape(doc) != shape(out) or literal_spans(doc) != literal_spans(out):
            confirmed += 1
            key = f"escaper[{sm['family']}]/shape"
            findings.append(C.Finding(prop, key, f"line-start word {sm['w']!r} (rest {sm['r']!r}) is not protected: {doc!r} at width {width} -> {out!r} ({kind_of_diff(shape(doc), shape(out))})",
                                      {"op": "reformat_text", "text": doc, "kwargs": {"width": width, "semantic": sem, "cleanups": False}, "pred": "shape-equal"}))
        else:
            spec_only += 1
    info.update(families=list(FAMILIES), queries_hazard=nq, unsat=nunsat, sat=len(sat_models), sat_confirmed_by_replay=confirmed, sat_spec_only=spec_only,
                translation_validation_checks=tv, solver_s=round(solver_s, 2), wall_s=round(time.time() - t0, 1), bounds=f"|w|<={MAXW}, |r|<={MAXR}",
                sat_samples=sat_models[:6], cvc5_second_opinion=cvc, construct_queries=ncq, construct_sat=construct_sat[:6], constructs=list(CONSTRUCTS))
    return findings, harness, info
