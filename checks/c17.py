"""
C17 - file discovery returns exactly the wanted files, deterministically.

The real FileResolver.resolve runs on a real temporary tree that is materialised, per path, from solver-chosen
choices: which entries of a fixed 12-entry skeleton exist (z3 Bools), the sizes of three files and the size
limit (unbounded z3 Ints, injected through Path.stat / the config so that `>` vs `>=` and `0 = unlimited` are
decided symbolically), and the settings force_exclude / extend_include / extend_exclude / .flowmarkignore present /
reversed directory listing order.  Arguments (directory, explicit files, globs, duplicates, permutations) are
enumerated per case.  Oracle: an independent reference computed from the tree *specification* (never from the file
system): expected set of resolved paths; result must be absolute, sorted, duplicate-free, equal to the reference,
and invariant under argument order and listing order.  Replay materialises the same tree with real sizes.
Presence bits and settings are enumerated by solver forks (said openly); the integers are where "for all" is real.
"""
from __future__ import annotations

import fnmatch
import os
import shutil
import sys
import tempfile
from pathlib import Path
from typing import Any

MODULE = "checks.c17"

# name -> (kind, relative path, link target or None, size variable or None)
ENTRIES: list[tuple[str, str, str, str | None, str | None]] = [
    ("a", "file", "a.md", None, "S_a"),
    ("b", "file", "b.txt", None, None),
    ("c", "file", "sub/c.md", None, "S_c"),
    ("d", "file", "sub/deep/d.md", None, None),
    ("e", "file", "node_modules/e.md", None, None),
    ("f", "file", "drafts/f.md", None, None),
    ("g", "file", "ignored.md", None, None),
    ("h", "file", "sub/node_modules/h.md", None, None),
    ("li", "linkfile", "link_in.md", "sub/c.md", None),
    ("le", "linkfile", "link_excl.md", "node_modules/e.md", None),
    ("lo", "linkfile", "sub/link_out.md", "@outside/o.md", None),
    ("ld", "linkdir", "linkdir", "sub/deep", None),
    ("big", "file", "big.md", None, "S_big"),
]
DEFAULT_EXCL_DIRS = {"node_modules"}

ARGSETS: dict[str, list[str]] = {
    "dir": ["."],
    "dir-abs": ["@root"],
    "subdir": ["sub"],
    "explicit": ["a.md", "node_modules/e.md", "ignored.md", "b.txt", "big.md"],
    "explicit-links": ["link_in.md", "sub/link_out.md"],
    "dir+explicit": [".", "a.md", "node_modules/e.md"],
    "dup-dirs": [".", "sub", "."],
    "glob-top": ["*.md"],
    "glob-rec": ["**/*.md"],
    "glob-sub": ["sub/*.md"],
    "mixed": ["sub", "*.md", "drafts/f.md"],
    # a directory argument lying below a directory that the walk of an earlier argument prunes: it is walked in its own right
    "overlap-pruned": [".", "node_modules", "sub/node_modules"],
}


def cases(tier: str) -> list[dict[str, Any]]:
    th = tier == "thorough"
    cs: list[dict[str, Any]] = []
    # which entries' presence is solver-chosen (the others: a, c, e present, the rest absent); three per group keeps the
    # path count per case small; settings that only need to be *covered* are fixed per profile instead of symbolic
    groups = [["a", "b", "e"], ["c", "d", "h"], ["li", "ld", "c"], ["e", "f", "g"], ["le", "e", "g"], ["lo", "big", "a"]]
    if th:
        groups += [["a", "c", "e", "g", "li", "lo"], ["b", "d", "f", "h", "ld", "big"]]
    profiles = [dict(reverse=False, ext_inc=False, exclude_given=False), dict(reverse=True, ext_inc=True, exclude_given=True)]
    for an, args in ARGSETS.items():
        for gi, grp in enumerate(groups):
            for pi, prof in enumerate(profiles):
                if not th and (gi + pi) % 2 == 1 and an not in ("dir", "explicit", "glob-rec", "mixed"):
                    continue
                # a path-style directory pattern is relative to the walk root; it is only given where every walk starts at the tree root
                prof = dict(prof, path_excl=bool(prof["exclude_given"]) and an in ("dir", "dir-abs", "dir+explicit"))
                cs.append(dict(key=f"resolve/{an}/g{gi}/p{pi}", kind="resolve", args=args, argset=an, symbolic_entries=grp, profile=prof, cost=len(args)))
    cs.append(dict(key="twin/resolve", kind="resolve", args=["."], argset="dir", symbolic_entries=["a", "c"], profile=dict(profiles[0], path_excl=False), twin=True))
    return cs


def _not(c: Any) -> Any:
    return (not c) if isinstance(c, bool) else ~c


class _Stat:
    def __init__(self, real: Any, size: Any):
        self._real, self.st_size = real, size

    def __getattr__(self, n: str) -> Any:
        return getattr(self._real, n)


def _match_dir_pattern(rel_dir_parts: tuple[str, ...], patterns: list[str]) -> bool:
    """gitignore-style *directory* patterns of the form name/ (any depth) - all this skeleton uses"""
    for part in rel_dir_parts:
        for p in patterns:
            if p.endswith("/") and fnmatch.fnmatchcase(part, p[:-1]):
                return True
    return False


def run(env: Any, case: dict[str, Any]) -> Any:
    import flowmark.file_resolver.resolver as R
    from flowmark.file_resolver import FileResolver, FileResolverConfig

    present = {}
    for name, kind, rel, target, sv in ENTRIES:
        present[name] = bool(env.bool(f"has_{name}")) if name in case["symbolic_entries"] else (name in ("a", "c", "e"))
    for name, kind, rel, target, sv in ENTRIES:
        if kind == "linkfile" and not target.startswith("@outside"):
            tname = [n for n, _k, r, _t, _s in ENTRIES if r == target][0]
            present[name] = present[name] and present[tname]
    force_exclude = bool(env.bool("force_exclude"))
    prof = case["profile"]
    ext_inc = prof["ext_inc"]
    ext_exc = bool(env.bool("extend_exclude_drafts"))
    has_ignore = bool(env.bool("has_flowmarkignore"))
    own_exclude = prof["exclude_given"]   # `exclude` given explicitly (here: the one default this tree uses) - extend_exclude must still apply
    reverse = prof["reverse"]
    path_excl = prof.get("path_excl", False)   # extend_exclude also holds the path-style pattern sub/deep/
    limit = env.int("files_max_size", lo=0)
    sizes = {sv: env.int(sv, lo=0, hi=4000) for _n, _k, _r, _t, sv in ENTRIES if sv}
    base = Path(tempfile.mkdtemp(prefix="c17_")).resolve()
    root, outside = base / "root", base / "outside"
    old_cwd = os.getcwd()
    real_stat, real_walk = Path.stat, R.os.walk
    try:
        root.mkdir()
        outside.mkdir()
        (outside / "o.md").write_text("x" * 10)
        size_of: dict[str, Any] = {}
        for name, kind, rel, target, sv in ENTRIES:
            if not present[name]:
                continue
            p = root / rel
            p.parent.mkdir(parents=True, exist_ok=True)
            if kind == "file":
                n = sizes[sv] if sv else 10
                if env.symbolic:
                    p.write_text("x" * 10)
                    size_of[str(p)] = n
                else:
                    p.write_text("x" * int(n))
            else:
                tgt = (outside / target.split("/", 1)[1]) if target.startswith("@outside") else (root / target)
                if kind == "linkdir":
                    tgt.mkdir(parents=True, exist_ok=True)
                elif not tgt.exists():
                    continue  # dangling links are left out (the target entry is absent on this path)
                os.symlink(tgt, p)
        if has_ignore:
            (root / ".flowmarkignore").write_text("ignored.md\n")
        os.chdir(root)

        if env.symbolic:
            def stat(self: Path, *a: Any, **kw: Any) -> Any:
                st = real_stat(self, *a, **kw)
                key = str(self if self.is_absolute() else (Path.cwd() / self))
                key = os.path.normpath(key)
                real_target = os.path.realpath(key)
                for k in (key, real_target):
                    if k in size_of:
                        return _Stat(st, size_of[k])
                return st
            Path.stat = stat  # type: ignore[method-assign]

        def walk(top: Any, *a: Any, **kw: Any) -> Any:
            for dp, dn, fn in real_walk(top, *a, **kw):
                dn.sort(reverse=reverse)
                fn.sort(reverse=reverse)
                yield dp, dn, fn
        R.os.walk = walk

        def resolve(args: list[str]) -> Any:
            cfg = FileResolverConfig(extend_include=["*.txt"] if ext_inc else [], exclude=["node_modules/"] if own_exclude else None, extend_exclude=(["drafts/"] if ext_exc else []) + (["sub/deep/"] if path_excl else []),
                                     force_exclude=force_exclude, files_max_size=limit)
            return FileResolver(cfg).resolve([str(root) if a == "@root" else a for a in args])

        rels = {rel for n, k, rel, t, sv in ENTRIES if present[n]}
        dirs = {str(Path(r).parent) for r in rels} | {str(pp) for r in rels for pp in Path(r).parents}
        args = [a for a in case["args"] if a in (".", "@root") or any(ch in a for ch in "*?[") or a in rels or a in dirs]
        got = resolve(args)
        got_rev = resolve(list(reversed(args)))
    finally:
        Path.stat = real_stat  # type: ignore[method-assign]
        R.os.walk = real_walk
        os.chdir(old_cwd)
        tree_listing = sorted(str(p.relative_to(base)) + ("@" if p.is_symlink() else "") for p in base.rglob("*"))
        shutil.rmtree(base, ignore_errors=True)

    label = f"discovery:{case['argset']}"
    if case.get("twin"):
        env.prove(len(got) == 0, label, "twin: claims nothing is ever found")
        return len(got)

    # ---------------- reference, from the specification of the tree ----------------
    inc = ["*.md"] + (["*.txt"] if ext_inc else [])
    excl = [d + "/" for d in DEFAULT_EXCL_DIRS] + (["drafts/"] if ext_exc else [])
    spec = {rel: (name, kind, target, sv) for name, kind, rel, target, sv in ENTRIES if present[name]}
    args = [a for a in case["args"] if a in (".", "@root") or any(ch in a for ch in "*?[") or a in spec or any(Path(a) in Path(r).parents for r in spec)]

    def too_big(sv: str | None) -> Any:
        if sv is None:
            return (limit != 0) & (limit < 10)
        return (limit != 0) & (sizes[sv] > limit)

    def real_of(rel: str) -> str | None:
        """resolved path of an entry (follows file links), None if a link dangles"""
        name, kind, target, sv = spec[rel]
        if kind == "file":
            return str(root / rel)
        if target.startswith("@outside"):
            return str(outside / target.split("/", 1)[1])
        return str(root / target) if target in spec or kind == "linkdir" else None

    expected: dict[str, Any] = {}  # resolved path -> condition under which it is expected (True or a symbolic bool)

    def want(path: str, cond: Any) -> None:
        prev = expected.get(path)
        expected[path] = cond if prev is None else (prev | cond)

    def traverse(start_rel: str) -> None:
        for rel, (name, kind, target, sv) in spec.items():
            if kind != "file":
                continue  # nothing is reached through a symbolic link during traversal
            parts = Path(rel).parts
            sparts = Path(start_rel).parts if start_rel != "." else ()
            if parts[: len(sparts)] != sparts:
                continue
            inner = parts[len(sparts):]
            if not any(fnmatch.fnmatchcase(inner[-1], p) for p in inc):
                continue
            if _match_dir_pattern(inner[:-1], excl):
                continue
            if has_ignore and inner[-1] == "ignored.md":
                continue
            if path_excl and start_rel == "." and parts[:2] == ("sub", "deep"):
                continue
            want(str(root / rel), _not(too_big(sv)))

    def glob_rels(pattern: str) -> set[str]:
        # reference glob over the specification: '*' does not cross '/', '**/' is any number of directories
        out = set()
        for rel, (name, kind, target, sv) in spec.items():
            if kind == "linkdir":
                continue
            parts, pp = Path(rel).parts, Path(pattern).parts
            if pp[0] == "**":
                ok = fnmatch.fnmatchcase(parts[-1], pp[-1])
                # pathlib's ** does not descend into symlinked directories; entries are spec paths, so fine
            else:
                ok = len(parts) == len(pp) and all(fnmatch.fnmatchcase(a, b) for a, b in zip(parts, pp))
            if ok:
                out.add(rel)
        return out

    for a in args:
        if a in (".", "@root"):
            traverse(".")
        elif a in spec and spec[a][1] in ("file", "linkfile"):
            name, kind, target, sv = spec[a]
            rp = real_of(a)
            if rp is None:
                continue
            excluded = force_exclude and (_match_dir_pattern(Path(a).parts[:-1], excl))
            tsv = sv
            if kind == "linkfile" and not target.startswith("@outside"):
                tsv = spec[target][3] if target in spec else None
            big = too_big(tsv)
            if not excluded:
                want(rp, _not(big))
        elif any(Path(a) in Path(r).parents for r in spec):
            traverse(a)
        elif any(ch in a for ch in "*?["):
            for rel in glob_rels(a):
                name, kind, target, sv = spec[rel]
                if kind != "file":
                    continue  # globs, like traversal, do not yield what is only reachable through a link
                parts = Path(rel).parts
                if not any(fnmatch.fnmatchcase(parts[-1], p) for p in inc):
                    continue
                if _match_dir_pattern(parts[:-1], excl):
                    continue
                if has_ignore and parts[-1] == "ignored.md":
                    continue
                big = too_big(sv)
                want(str(root / rel), _not(big))
        else:
            # a path that does not exist on this branch: resolve() must have raised FileNotFoundError - handled by the caller
            pass

    got_s = [str(p) for p in got]
    state = {"args": args, "tree": tree_listing, "got": [s.replace(str(base), "") for s in got_s], "settings": dict(force_exclude=force_exclude, ext_inc=ext_inc, ext_exc=ext_exc, path_excl=path_excl, ignore=has_ignore, reverse=reverse)}
    env.prove(all(os.path.isabs(s) for s in got_s), label + ":absolute", state)
    env.prove(got_s == sorted(got_s) and len(set(got_s)) == len(got_s), label + ":sorted-unique", state)
    env.prove([str(p) for p in got_rev] == got_s, label + ":argument-order", state)
    for path, cond in expected.items():
        inside = path in got_s
        short = path.replace(str(base), "")
        if inside:
            env.prove(cond, label + ":unwanted" + _why(short), dict(state, path=short))
        else:
            env.prove(_not(cond), label + ":missed" + _why(short), dict(state, path=short))
    for s in got_s:
        if s not in expected:
            env.prove(False, label + ":unwanted" + _why(s.replace(str(base), "")), dict(state, path=s.replace(str(base), "")))
    return state["got"]


def _why(short: str) -> str:
    """normal form of which kind of entry is wrong"""
    if "/outside/" in short:
        return "[outside-via-link]"
    if "node_modules" in short:
        return "[default-excluded-dir]"
    if "drafts" in short or "/deep/" in short:
        return "[user-excluded-dir]"
    if "ignored.md" in short:
        return "[flowmarkignore]"
    if short.endswith(".txt"):
        return "[include-pattern]"
    if "big.md" in short or short.endswith("/a.md") or short.endswith("/c.md"):
        return "[size-or-plain]"
    return "[plain]"


def key_fn(case: dict[str, Any], label: str, item: dict[str, Any], conc: dict[str, Any]) -> str:
    kind = "glob" if case["argset"].startswith("glob") or case["argset"] == "mixed" else "explicit" if case["argset"].startswith("explicit") else "dir"
    return f"{kind}/{label.split(':', 2)[2] if label.count(':') >= 2 else label}"


def what_fn(case: dict[str, Any], label: str, item: dict[str, Any], conc: dict[str, Any]) -> str:
    f = [x for x in conc.get("failed", []) if x["label"] == label]
    d = f[0]["detail"] if f else {}
    return f"{label} args={case['args']} path={d.get('path') if isinstance(d, dict) else ''} settings={d.get('settings') if isinstance(d, dict) else ''} tree={d.get('tree') if isinstance(d, dict) else ''} model={item['model']}"


def main() -> int:
    from checks import common as C
    from engines import driver as D

    ev = C.Evidence("C17", "model_checking")
    cs = cases(C.tier())
    findings, harness = D.run_check("C17", MODULE, cs, ev, key_fn, sample_paths=6, max_paths=30000, what_fn=what_fn)
    ev.add(
        rule="case = (argument set, which entries are symbolic); state = feasible path over presence bits, settings and the order relations between 3 sizes and the limit; obligations: absolute, sorted, unique, "
        "equal to the reference computed from the tree specification, invariant under argument reversal; listing order reversed under a solver-chosen bit",
        functions_encoded=["file_resolver.resolver.FileResolver.resolve/_walk_directory/_is_dir_excluded/_expand_glob/_should_include_explicit/_exceeds_max_size", "file_resolver.gitignore.load_tool_ignore"],
        bounds="13-entry skeleton (files, nested dirs, default/user excluded dirs, ignore file, links to file inside / in excluded dir / outside, link to dir); sizes 0..4000 and the limit >=0 symbolic; 12 argument sets (incl. a directory argument below a directory pruned by an earlier argument's walk)",
        stubs=["Path.stat returns the symbolic size for the three sized files (symbolic mode only)", "resolver.os.walk wrapped to reverse listing order under a symbolic bit"],
        sources=C.source_hashes(["src/flowmark/file_resolver/resolver.py", "src/flowmark/file_resolver/gitignore.py", "src/flowmark/file_resolver/defaults.py", "src/flowmark/file_resolver/types.py"]),
    )
    return C.finish(ev, findings, harness)


if __name__ == "__main__":
    sys.exit(main())
