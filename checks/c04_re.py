"""
C04 E-RE lemma: "a fence is always long enough to contain its content".

The pattern `_min_fence_length` really uses is captured at run time (its `re.finditer` call is observed while the real
function runs once per fence character) and translated with re2smt.  z3 is then asked for a content line (<= 12 chars
over ` ~ space a) that CommonMark would read as a closing fence for the fence character (up to 3 spaces, >= 3 fence
characters, optional trailing blanks) but that the captured pattern does NOT match at the start of a line: such a line
is invisible to the length computation, so a 3-character fence would be closed early.  unsat = the scan covers every
closing-fence candidate within the bound.  The MULTILINE flag must be set (otherwise only the first line is scanned).
A model is replayed through reformat_text as a line of an indented code block (second line of the block).
"""
from __future__ import annotations

import re
import time
from typing import Any

import z3

MAXLEN = 12


def lemma(prop: str = "C04") -> tuple[list[Any], list[str], dict[str, Any]]:
    import flowmark.formats.flowmark_markdown as FM
    from checks import common as C
    from engines import re2smt

    t0 = time.time()
    harness: list[str] = []
    findings: list[Any] = []
    captured: dict[str, tuple[str, int]] = {}

    class _ReProxy:
        def __init__(self, real: Any, ch: str):
            self._real, self._ch = real, ch

        def finditer(self, pattern: Any, string: Any, flags: int = 0) -> Any:
            pat = pattern.pattern if hasattr(pattern, "pattern") else pattern
            fl = (pattern.flags if hasattr(pattern, "pattern") else 0) | flags
            captured[self._ch] = (pat, fl)
            return self._real.finditer(pattern, string, flags) if not hasattr(pattern, "pattern") else pattern.finditer(string)

        def __getattr__(self, n: str) -> Any:
            return getattr(self._real, n)

    real_re = FM.re
    try:
        for ch in ("`", "~"):
            FM.re = _ReProxy(real_re, ch)
            FM._min_fence_length("x\n" + ch * 3 + "\n", ch)
    except Exception as e:  # noqa: BLE001
        info_err = f"{type(e).__name__}: {e}"
    finally:
        FM.re = real_re
    info: dict[str, Any] = {"captured": {k: [v[0], int(v[1])] for k, v in captured.items()}, "bounds": f"content line <= {MAXLEN} chars over ` ~ space a"}
    if len(captured) != 2:
        info["status"] = "refused: _min_fence_length no longer goes through re.finditer"
        return findings, [], info
    ell = z3.String("line")
    alphabet = re2smt.fullmatch_lang(re.compile(r"[`~ a]{0,%d}" % MAXLEN))
    nq = nunsat = 0
    jobs, meta = [], []
    for ch, (pat, flags) in captured.items():
        cre = re.compile(pat, flags & ~re.MULTILINE)
        try:
            impl = re2smt.match_lang(cre)
        except re2smt.TranslationRefused as e:
            harness.append(f"C04-RE: pattern {pat!r} not translatable: {e}")
            continue
        close = re2smt.fullmatch_lang(re.compile(r" {0,3}" + re.escape(ch) + r"{3,}[ \t]*"))
        s = z3.Solver()
        s.set("timeout", 30000)
        s.add(z3.InRe(ell, alphabet), z3.InRe(ell, close), z3.Not(z3.InRe(ell, impl)))
        r = s.check()
        nq += 1
        witness = None
        if r == z3.unsat:
            nunsat += 1
        elif r == z3.sat:
            witness = s.model().eval(ell, model_completion=True).as_string()
        else:
            harness.append(f"C04-RE: solver unknown for fence char {ch!r}")
        if not (flags & re.MULTILINE) and witness is None:
            witness = ch * 3  # any closing-fence line that is not the first line of the content is missed
        if witness is not None:
            if ch == "`":
                doc = "qaa\n\n    x\n    " + witness + "\n    y\n\nqab\n"
            else:
                doc = "qaa\n\n~~~\nx\n" + witness + "~\ny\n~~~~\n\nqab\n" if False else "qaa\n\n    x\n    " + witness + "\n    y\n\nqab\n"
            jobs.append({"op": "reformat_text", "text": doc, "kwargs": {"width": 40, "semantic": False, "cleanups": False}})
            meta.append((ch, witness, doc))
    from oracles.spans import literal_spans

    confirmed = 0
    for (ch, witness, doc), rr in zip(meta, C.replay_batch(jobs) if jobs else []):
        if "exc" in rr:
            harness.append(f"C04-RE replay raised: {rr['exc']}")
            continue
        if literal_spans(doc) != literal_spans(rr["out"]):
            confirmed += 1
            findings.append(C.Finding(prop, f"fence-scan[{ch}]", f"a code line {witness!r} is a closing-fence candidate the fence-length scan does not see: {doc!r} -> {rr['out']!r}",
                                      {"op": "reformat_text", "text": doc, "kwargs": {"width": 40, "semantic": False, "cleanups": False}}))
    info.update(queries=nq, unsat=nunsat, witnesses=[m[1] for m in meta], confirmed=confirmed, multiline_flag={k: bool(v[1] & re.MULTILINE) for k, v in captured.items()}, wall_s=round(time.time() - t0, 2))
    return findings, harness, info
