"""
C15 - all entry points agree: CLI, file API and text API give the same bytes.

API layer (solver-quantified): fill_markdown / fill_text in reformat_api's namespace are replaced by recording
stubs (uninterpreted functions of their arguments); width is a z3 Int, every switch a z3 Bool, list spacing a
3-way choice.  The real reformat_text / reformat_file / reformat_files run with those symbolic values; z3
decides `captured_k == option_k` for every argument (a swapped, dropped, defaulted or altered pass-through is
a model where they differ), and the bytes that reach stdout / the target file must be the stub's result.
CLI layer: argv is text, so flags are chosen under solver forks (this part is enumeration, said openly) and the
real main() runs end to end; bytes are compared with reformat_text(doc, **options).
Replay (concrete mode) uses no stubs at all: real files, real formatting, byte comparison.
"""
from __future__ import annotations

import contextlib
import inspect
import io
import os
import shutil
import sys
import tempfile
from pathlib import Path
from typing import Any

MODULE = "checks.c15"

# a document sensitive to every option: a different option value gives different bytes
DOC = (
    '# **Bold heading**\n\n"Quoted text" isn\'t finished... and this paragraph is long enough to be wrapped when the width is narrow. '
    "Second sentence follows here too. Third one is short.\n\n- item one\n- item two\n\n1. first\n\n2. second\n"
)
DOC2 = "## **Other**\n\nAnother 'document' with dots... to format. It has two sentences.\n\n* a\n\n* b\n"
LS = ["preserve", "loose", "tight"]
WIDTHS = [None, "0", "1", "40", "120"]


def cases(tier: str) -> list[dict[str, Any]]:
    th = tier == "thorough"
    cs: list[dict[str, Any]] = []
    for entry in ["text", "file_stdout", "file_output", "file_inplace", "files_inplace", "files_stdout", "files_stdout_alias", "stdin_stdout", "stdin_output"]:
        cs.append(dict(key=f"api/{entry}", kind="api", entry=entry))
    inputs = ["file", "stdin", "two"]
    outputs = ["stdout", "ofile", "inplace"]
    for inp in inputs:
        for outp in outputs:
            if inp == "file" and outp == "ofile":
                # `flowmark -o out.md one.md` is neither among the entry points the property equates nor among
                # its usage errors (observed: exit 1, nothing written); left unspecified, no obligation
                continue
            for ls in ([None] + LS if th else [None, "tight"]):
                for w in (WIDTHS if th else [None, "40", "0"]):
                    cs.append(dict(key=f"cli/{inp}/{outp}/ls={ls}/w={w}", kind="cli", inp=inp, outp=outp, ls=ls, w=w))
    for w in [None, "40"]:
        cs.append(dict(key=f"cli/alias/stdout/ls=None/w={w}", kind="cli", inp="alias", outp="stdout", ls=None, w=w))
    cs.append(dict(key="cli/noinput", kind="cli", inp="none", outp="stdout", ls=None, w=None))
    cs.append(dict(key="twin/api", kind="api", entry="file_stdout", twin=True))
    return cs


# ------------------------------------------------------------------------------------------


class _Rec:
    def __init__(self) -> None:
        self.calls: list[tuple[str, dict[str, Any]]] = []


@contextlib.contextmanager
def _stubs(rec: _Rec):
    import flowmark.reformat_api as ra

    real_md, real_tx = ra.fill_markdown, ra.fill_text
    sig_md, sig_tx = inspect.signature(real_md), inspect.signature(real_tx)

    def stub_md(*a: Any, **kw: Any) -> str:
        b = sig_md.bind(*a, **kw)
        b.apply_defaults()
        rec.calls.append(("md", dict(b.arguments)))
        return f"MD#{len(rec.calls) - 1}\n"

    def stub_tx(*a: Any, **kw: Any) -> str:
        b = sig_tx.bind(*a, **kw)
        b.apply_defaults()
        rec.calls.append(("tx", dict(b.arguments)))
        return f"TX#{len(rec.calls) - 1}\n"

    ra.fill_markdown, ra.fill_text = stub_md, stub_tx
    try:
        yield
    finally:
        ra.fill_markdown, ra.fill_text = real_md, real_tx


@contextlib.contextmanager
def _sandbox(stdin_text: str | None = None):
    d = Path(tempfile.mkdtemp(prefix="c15_"))
    old_cwd, old_in = os.getcwd(), sys.stdin
    out = io.StringIO()
    os.chdir(d)
    if stdin_text is not None:
        sys.stdin = io.StringIO(stdin_text)
    try:
        with contextlib.redirect_stdout(out), contextlib.redirect_stderr(io.StringIO()):
            yield d, out
    finally:
        sys.stdin = old_in
        os.chdir(old_cwd)
        shutil.rmtree(d, ignore_errors=True)


def _tree(d: Path) -> dict[str, str]:
    return {str(p.relative_to(d)): p.read_text() for p in sorted(d.rglob("*")) if p.is_file()}


def _same(env: Any, cap: Any, opt: Any) -> Any:
    """captured argument is (symbolically) the option"""
    from engines import symlen as S

    if isinstance(cap, (S.SymInt, S.SymBool)) or isinstance(opt, (S.SymInt, S.SymBool)):
        if isinstance(cap, (S.SymInt, S.SymBool, bool, int)) and isinstance(opt, (S.SymInt, S.SymBool, bool, int)):
            return cap == opt
        return False
    return cap == opt


def _options(env: Any) -> dict[str, Any]:
    from flowmark.formats.flowmark_markdown import ListSpacing

    o: dict[str, Any] = dict(width=env.int("W"))
    for k in ("plaintext", "semantic", "cleanups", "smartquotes", "ellipses"):
        o[k] = env.bool(k)
    sel = env.int("LSsel", 0, 2)
    ls = LS[0]
    for i in range(3):
        if sel == i:
            ls = LS[i]
    o["list_spacing"] = ListSpacing(ls)
    return o


def _run_api(env: Any, case: dict[str, Any]) -> Any:
    import flowmark.reformat_api as ra

    entry = case["entry"]
    o = _options(env)
    fmt_kw = {k: o[k] for k in ("width", "plaintext", "semantic", "cleanups", "smartquotes", "ellipses", "list_spacing")}
    nobackup = env.bool("nobackup")
    label = f"entrypoints-agree:{entry}"
    rec = _Rec()
    symbolic = env.symbolic
    stubctx = _stubs(rec) if symbolic else contextlib.nullcontext()
    stdin_text = DOC if entry.startswith("stdin") else None
    with stubctx, _sandbox(stdin_text) as (d, out):
        (d / "a.md").write_text(DOC)
        (d / "b.md").write_text(DOC2)
        before = _tree(d)
        # reference: the text API with the same options
        ref = ra.reformat_text(DOC, **fmt_kw)
        ref2 = ra.reformat_text(DOC2, **fmt_kw)
        nref = len(rec.calls)
        if symbolic and nref != 2:
            from engines.symlen import HarnessError

            raise HarnessError(f"the recording stubs for fill_markdown/fill_text were reached {nref} times by two reformat_text calls: reformat_api no longer looks them up in its namespace (encoding refused)")
        sinks: list[tuple[str, str]] = []  # (what was produced, what the text API returned)
        if entry == "text":
            # positional call, as reformat_file does it
            got = ra.reformat_text(DOC, fmt_kw["width"], fmt_kw["plaintext"], fmt_kw["semantic"], fmt_kw["cleanups"], fmt_kw["smartquotes"], fmt_kw["ellipses"], fmt_kw["list_spacing"])
            sinks.append((got, ref))
        elif entry == "file_stdout":
            ra.reformat_file("a.md", "-", inplace=False, nobackup=nobackup, **fmt_kw)
            sinks.append((out.getvalue(), ref))
        elif entry == "file_output":
            ra.reformat_file("a.md", "sub/out.md", inplace=False, nobackup=nobackup, **fmt_kw)
            sinks.append(((d / "sub/out.md").read_text() if (d / "sub/out.md").exists() else "<missing>", ref))
            sinks.append(((d / "a.md").read_text(), DOC))
        elif entry == "file_inplace":
            ra.reformat_file("a.md", None, inplace=True, nobackup=nobackup, **fmt_kw)
            sinks.append(((d / "a.md").read_text(), ref))
            orig = d / "a.md.orig"
            if nobackup:
                env.prove(not orig.exists(), label, "backup written although nobackup")
            else:
                env.prove(orig.exists() and orig.read_text() == DOC, label, "backup missing or wrong")
        elif entry == "files_inplace":
            ra.reformat_files(["a.md", "b.md"], None, inplace=True, nobackup=nobackup, **fmt_kw)
            sinks.append(((d / "a.md").read_text(), ref))
            sinks.append(((d / "b.md").read_text(), ref2))
        elif entry == "files_stdout":
            ra.reformat_files(["a.md", "b.md"], "-", inplace=False, nobackup=nobackup, **fmt_kw)
            sinks.append((out.getvalue(), ref + ref2))
            sinks.append(((d / "a.md").read_text(), DOC))
        elif entry == "files_stdout_alias":
            # the same file named twice (second time through another spelling): "each file gets exactly the result
            # it would get alone" - three arguments, three results, in argument order
            ra.reformat_files(["a.md", "b.md", "./a.md"], "-", inplace=False, nobackup=nobackup, **fmt_kw)
            sinks.append((out.getvalue(), ref + ref2 + ref))
            sinks.append(((d / "a.md").read_text(), DOC))
        elif entry == "stdin_stdout":
            ra.reformat_files(["-"], "-", inplace=False, nobackup=nobackup, **fmt_kw)
            sinks.append((out.getvalue(), ref))
        elif entry == "stdin_output":
            ra.reformat_files(["-"], "o.md", inplace=False, nobackup=nobackup, **fmt_kw)
            sinks.append(((d / "o.md").read_text() if (d / "o.md").exists() else "<missing>", ref))
        else:
            raise ValueError(entry)
        if case.get("twin"):
            env.prove(out.getvalue() == "", label, "twin: claims nothing is written to stdout")
            return "twin"
        if symbolic:
            # (1) every formatter call made through the entry point received exactly the options
            ref_calls, ep_calls = rec.calls[:nref], rec.calls[nref:]
            env.prove(len(ep_calls) == (3 if entry.endswith("_alias") else 2 if entry.startswith("files_") else 1), label, f"{len(ep_calls)} formatter calls")
            for i, (kind, args) in enumerate(ep_calls):
                rk, rargs = ref_calls[0 if (entry.endswith('_alias') and i == 2) else min(i, len(ref_calls) - 1)]
                env.prove(kind == rk, label, f"formatter {kind} vs text API {rk}")
                if kind != rk:
                    continue
                for name in rargs:
                    if name in ("line_wrapper", "word_splitter", "len_fn"):
                        continue
                    env.prove(_same(env, args.get(name), rargs[name]), label, f"argument {name}: {args.get(name)!r} vs text API {rargs[name]!r}")
            # (2) what reached the sink is the formatter's result, unmodified (stub results are MD#k / TX#k)
            produced = "".join(s for s, _ in sinks[:1])
            want = "".join(f"{'MD' if k == 'md' else 'TX'}#{nref + i}\n" for i, (k, _) in enumerate(ep_calls))
            if entry == "files_inplace":
                produced = sinks[0][0] + sinks[1][0]
            env.prove(produced == want, label, f"sink holds {produced!r}, formatter returned {want!r}")
            for got, exp in sinks[1:]:
                if exp in (DOC, DOC2):
                    env.prove(got == exp, label, "input file modified")
        else:
            for got, exp in sinks:
                env.prove(got == exp, label, {"got": got[:200], "want": exp[:200]})
        # nothing else was written
        after = _tree(d)
        allowed = {"a.md", "b.md", "a.md.orig", "b.md.orig", "sub/out.md", "o.md"}
        env.prove(set(after) <= allowed and all(after.get(k) == v for k, v in before.items() if "inplace" not in entry), label, f"unexpected files {sorted(set(after) - allowed)}")
    return "ok"


def _run_cli(env: Any, case: dict[str, Any]) -> Any:
    import flowmark.cli as cli
    import flowmark.reformat_api as ra
    from flowmark.formats.flowmark_markdown import ListSpacing

    flags = {k: bool(env.bool("f_" + k)) for k in ("plaintext", "semantic", "cleanups", "smartquotes", "ellipses", "auto", "nobackup")}
    inp, outp = case["inp"], case["outp"]
    argv: list[str] = []
    for k, on in flags.items():
        if on:
            argv.append("--" + k)
    if case["ls"]:
        argv += ["--list-spacing", case["ls"]]
    if case["w"] is not None:
        argv += ["--width", case["w"]]
    if outp == "ofile":
        argv += ["-o", "out.md"]
    if outp == "inplace":
        argv.append("--inplace")
    argv += {"file": ["a.md"], "stdin": ["-"], "two": ["a.md", "b.md"], "alias": ["a.md", "b.md", "./a.md"], "none": []}[inp]
    auto = flags["auto"]
    opts = dict(
        width=int(case["w"]) if case["w"] is not None else 88,
        plaintext=flags["plaintext"],
        semantic=flags["semantic"] or auto,
        cleanups=flags["cleanups"] or auto,
        smartquotes=flags["smartquotes"] or auto,
        ellipses=flags["ellipses"] or auto,
        list_spacing=ListSpacing(case["ls"] or "preserve"),
    )
    inplace = outp == "inplace" or auto
    nobackup = flags["nobackup"] or auto
    label = f"entrypoints-agree:cli/{inp}/{outp}"
    with _sandbox(DOC if inp == "stdin" else None) as (d, out):
        (d / "a.md").write_text(DOC)
        (d / "b.md").write_text(DOC2)
        before = _tree(d)
        code = cli.main(list(argv))
        after = _tree(d)
        stdout = out.getvalue()
        ref, ref2 = ra.reformat_text(DOC, **opts), ra.reformat_text(DOC2, **opts)
        usage_error = inp == "none" or (inp == "stdin" and inplace) or (inp == "two" and outp == "ofile" and not inplace)
        if usage_error:
            env.prove(code != 0, label, f"usage error but exit code {code} argv={argv}")
            env.prove(after == before and stdout == "", label, f"usage error wrote something argv={argv}")
            return "usage"
        env.prove(code == 0, label, f"exit code {code} argv={argv}")
        files = ["a.md"] if inp == "file" else ["a.md", "b.md"] if inp == "two" else ["a.md", "b.md", "a.md"] if inp == "alias" else []
        refs = {"a.md": ref, "b.md": ref2}
        srcs = {"a.md": DOC, "b.md": DOC2}
        exp = dict(before)
        exp_stdout = ""
        if inplace:
            for f in files:
                exp[f] = refs[f]
                if not nobackup:
                    exp[f + ".orig"] = srcs[f]
        elif outp == "ofile":
            exp["out.md"] = ref
        else:
            exp_stdout = "".join(refs[f] for f in files) if files else ref
        env.prove(stdout == exp_stdout, label, {"argv": argv, "stdout": stdout[:160], "want": exp_stdout[:160]})
        env.prove(after == exp, label, {"argv": argv, "files": {k: v[:80] for k, v in after.items()}, "want": {k: v[:80] for k, v in exp.items()}})
    return "ok"


def run(env: Any, case: dict[str, Any]) -> Any:
    if case["kind"] == "api":
        return _run_api(env, case)
    return _run_cli(env, case)


def key_fn(case: dict[str, Any], label: str, item: dict[str, Any], conc: dict[str, Any]) -> str:
    return label


def main() -> int:
    from checks import common as C
    from engines import driver as D

    ev = C.Evidence("C15", "model_checking")
    cs = cases(C.tier())
    findings, harness = D.run_check("C15", MODULE, cs, ev, key_fn, sample_paths=4, max_paths=5000)
    ev.add(
        rule="API cases: state = feasible path over (W:Int, 6 Bool switches, list-spacing choice); CLI cases: state = one flag combination chosen under solver forks (enumeration); "
        "obligation: formatter arguments == options (z3), sink bytes == formatter result, no other file written, usage errors write nothing",
        functions_encoded=["reformat_api.reformat_text", "reformat_api.reformat_file", "reformat_api.reformat_files", "cli.main / cli._parse_args (concrete argv)"],
        bounds="one or two input files; --width in {absent,0,1,40,120}; --list-spacing in {absent,preserve,loose,tight}; 7 flags; 3 input kinds x 3 output modes",
        stubs=["reformat_api.fill_markdown / fill_text -> recording stubs (symbolic mode only; replay uses the real formatter on an option-sensitive document)"],
        sources=C.source_hashes(["src/flowmark/cli.py", "src/flowmark/reformat_api.py"]),
    )
    ev.assumptions += ["the formatter is a function of its arguments (uninterpreted in symbolic mode); config files are absent (cwd is an empty temp dir; C16 covers config)"]
    return C.finish(ev, findings, harness)


if __name__ == "__main__":
    sys.exit(main())
