"""
C10 - cleanups and list-spacing options do exactly what they say and nothing else.

Real code: reformat_text under list_spacing in {preserve, loose, tight} and cleanups in {off, on}, on list and
heading skeletons (structures enumerated); symbolic: every word length and the width, so "and nothing else
changes, at any width" is decided over all break layouts.
"""
from __future__ import annotations

import sys
from typing import Any

from skeletons import docs as DOCS
from skeletons import lists as L

MODULE = "checks.c10"
# a heading line under any container prefixes (quote marks, list markers, a footnote label)
_HEADING_LINE = __import__("re").compile(r"^[ >]*(?:(?:[-*+]|\d+[.)])[ ]+|\[\^[^\]]+\]:[ ]+|[ >]+)*#")


def cases(tier: str) -> list[dict[str, Any]]:
    cs: list[dict[str, Any]] = []
    for c in L.list_docs(tier):
        three = c["special"].count("|") >= 2
        for sem in ((False, True) if (tier == "thorough" and not three and "/top/" in c["key"]) else (False,)):
            d = dict(c)
            d.update(kind="lists", sem=sem, key=c["key"] + ("/sem" if sem else "/fill"))
            cs.append(d)
    for c in list(L.heading_docs(tier)) + [b for b in DOCS.blocks(tier) if b["special"] in ("atx", "setext1", "heading-list", "emph-nest", "table", "task", "loose")]:
        for sem in (False, True):
            d = dict(c)
            d.update(kind="cleanups", sem=sem, key=c["key"] + ("/sem" if sem else "/fill"))
            cs.append(d)
    cs.append(dict(key="twin/lists", kind="lists", fam="list", special="twin", doc="- qaa qab\n- qac\n", sem=False, twin=True))
    return cs


def _noblank(s: str) -> list[str]:
    return [ln for ln in s.split("\n") if ln.strip(" >")]


_ITEM = __import__("re").compile(r"^(?:> ?|    (?=.*\S))*\s*(?:[-*+]|\d{1,9}[.)])(?: |$)")


def item_separation(text: str) -> list[bool]:
    """for every line that starts a list item (skeleton documents hold markers only in real items): is it
    preceded by a blank line (container prefixes ignored)?  The first line of the document counts as separated."""
    lines = text.rstrip("\n").split("\n")
    out = []
    in_code = False
    for i, ln in enumerate(lines):
        body = ln.lstrip(" >")
        if body.startswith("```") or body.startswith("~~~"):
            in_code = not in_code
            continue
        if in_code or not _ITEM.match(ln) or __import__("re").match(r"^[ >]*(?:[-*_] *){3,}$", ln):
            continue
        out.append(i == 0 or lines[i - 1].strip(" >") == "" or lines[i - 1].strip().startswith("> [!"))
    return out


def _lists(shape: Any, acc: list[Any]) -> list[Any]:
    if isinstance(shape, tuple):
        if shape and shape[0] == "list":
            acc.append(shape)
        for x in shape:
            _lists(x, acc)
    return acc


def _strip_tight(shape: Any) -> Any:
    if isinstance(shape, tuple):
        if shape and shape[0] == "list":
            return tuple(_strip_tight(x) for x in shape[:-1])
        return tuple(_strip_tight(x) for x in shape)
    return shape


def _unbold(shape: Any) -> Any:
    """reference for the cleanup: a heading whose whole content is bold loses it; bold-italic becomes italic"""
    if isinstance(shape, tuple):
        if shape and shape[0] == "heading":
            inl = shape[2]
            if len(inl) == 1 and isinstance(inl[0], tuple) and inl[0][0] == "strong":
                inl = inl[0][1]
            elif len(inl) == 1 and isinstance(inl[0], tuple) and inl[0][0] == "em" and len(inl[0][1]) == 1 and isinstance(inl[0][1][0], tuple) and inl[0][1][0][0] == "strong":
                inl = (("em", inl[0][1][0][1]),)
            return ("heading", shape[1], inl)
        return tuple(_unbold(x) for x in shape)
    return shape


def run(env: Any, case: dict[str, Any]) -> Any:
    from flowmark import reformat_text
    from flowmark.formats.flowmark_markdown import ListSpacing
    from oracles.mdshape import first_diff, shape

    W = env.int("W")
    doc = env.text(case["doc"])
    if case["kind"] == "lists":
        outs = {ls: reformat_text(doc, width=W, semantic=case["sem"], cleanups=False, list_spacing=ListSpacing(ls)) for ls in ("preserve", "loose", "tight")}
        if case.get("twin"):
            env.prove(outs["loose"] == outs["tight"], "list-spacing:only-blank-lines", "twin: claims loose and tight give the same bytes")
            return outs
        base = _noblank(outs["preserve"])
        for ls in ("loose", "tight"):
            env.prove(_noblank(outs[ls]) == base, "list-spacing:only-blank-lines", {"mode": ls, "preserve": outs["preserve"], ls: outs[ls]})
        s_in = shape(doc, with_tight=True)
        sh = {ls: shape(o, with_tight=True) for ls, o in outs.items()}
        # structure (ignoring tightness) is the same in all three and equal to the input's
        for ls in sh:
            env.prove(_strip_tight(sh[ls]) == _strip_tight(s_in), f"list-spacing:structure:{ls}", first_diff(_strip_tight(s_in), _strip_tight(sh[ls]))[:300])
        # preserve keeps every list as authored
        env.prove([l[-1] for l in _lists(sh["preserve"], [])] == [l[-1] for l in _lists(s_in, [])], "list-spacing:preserve-as-authored",
                  {"in": [l[-1] for l in _lists(s_in, [])], "out": [l[-1] for l in _lists(sh["preserve"], [])], "output": outs["preserve"]})
        # loose: every list loose, and literally a blank line before every item
        env.prove(all(l[-1] == "loose" for l in _lists(sh["loose"], [])), "list-spacing:loose-all", {"out": outs["loose"]})
        env.prove(all(item_separation(outs["loose"])), "list-spacing:loose-blank-line-before-every-item", {"out": outs["loose"], "separated": item_separation(outs["loose"])})
        # tight: every list whose items each hold a single block is tight
        for l in _lists(sh["tight"], []):
            single = all(len(item[1]) == 1 for item in l[3])
            if single:
                env.prove(l[-1] == "tight", "list-spacing:tight-single-block-lists", {"out": outs["tight"]})
            else:
                # "tight removes those blank lines from every list whose items each hold a single block" - and only those:
                # a list with a multi-block item is not made tight
                env.prove(l[-1] == "loose", "list-spacing:tight-only-single-block-lists", {"out": outs["tight"]})
        return outs
    if case["kind"] == "cleanups":
        off = reformat_text(doc, width=W, semantic=case["sem"], cleanups=False)
        on = reformat_text(doc, width=W, semantic=case["sem"], cleanups=True)
        s_off, s_on = shape(off), shape(on)
        want = _unbold(s_off)
        env.prove(s_on == want, "cleanups:unbold-exactly", first_diff(want, s_on)[:300] if s_on != want else "")
        # byte level: only heading lines may differ
        lo, ln = off.split("\n"), on.split("\n")
        same_len = len(lo) == len(ln)
        env.prove(same_len and all(a == b or _HEADING_LINE.match(a) for a, b in zip(lo, ln)), "cleanups:only-heading-lines", {"off": off, "on": on})
        return [off, on]
    raise ValueError(case["kind"])


def key_fn(case: dict[str, Any], label: str, item: dict[str, Any], conc: dict[str, Any]) -> str:
    if case["kind"] == "lists":
        # the item-pattern (which block kinds the items hold) is the normal form of a list skeleton
        pat = str(case["special"]).split("/")[-1]
        if "/footnote1/" in case["key"] or "/footnote/" in case["key"]:
            # a multi-item list inside a footnote definition (see skeletons/docs.finding_class): Marko reads the items'
            # indentation unreliably; whatever obligation that drift breaks first
            return "footnote-first-line-list/list-spacing"
        return f"list[{pat}]/{label}"
    return f"{DOCS.special_key(case)}/{label}"


def what_fn(case: dict[str, Any], label: str, item: dict[str, Any], conc: dict[str, Any]) -> str:
    f = [x for x in conc.get("failed", []) if x["label"] == label]
    return f"{label} | case {case['key']} model={item['model']} detail={str(f[0]['detail'] if f else '')[:500]!r}"


def main() -> int:
    from checks import common as C
    from engines import driver as D

    ev = C.Evidence("C10", "model_checking")
    cs = cases(C.tier())
    findings, harness = D.run_check("C10", MODULE, cs, ev, key_fn, sample_paths=2 if C.tier() == "quick" else 4, max_paths=30000, what_fn=what_fn)
    ev.add(
        rule="case = (list or heading skeleton, mode); state = joint feasible path of the 3 list-spacing runs (or the 2 cleanups runs); obligations: outputs equal modulo blank lines, "
        "re-parsed tightness per mode, structure unchanged, cleanups == reference unbold on the parsed tree and only heading lines differ",
        functions_encoded=["reformat_api.reformat_text -> MarkdownNormalizer.render_list/_can_be_tight/render_list_item, doc_cleanups.unbold_headings (whole pipeline)"],
        bounds="list skeletons: 2-3 items, item patterns P/PP/PC/PQ/PL/PL1, markers -,1.,task(,3)), authored tight/loose, top/quote(/footnote); heading skeletons listed in skeletons/lists.py; lengths and W unbounded",
        sources=C.source_hashes(["src/flowmark/transforms/doc_cleanups.py", "src/flowmark/formats/flowmark_markdown.py", "src/flowmark/linewrapping/markdown_filling.py"]),
    )
    ev.assumptions += ["A1/A2 (validated by replay)", "Marko's List.tight is the reader's notion of tight/loose"]
    return C.finish(ev, findings, harness)


if __name__ == "__main__":
    sys.exit(main())
