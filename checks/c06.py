"""
C06 - template tags and other atomic constructs are never split or displaced.

E-INT: paragraphs mixing plain tokens with 1-3 atomic constructs (tags, comments, variables, inline HTML, code
spans, links, images; adjacent, space-separated, newline-separated; tag-only lines around prose / list / table)
in every container context and both modes.  Symbolic: every length *including the constructs' own* and W.
Per path: every construct sits intact on one output line; words are separated exactly as in the source
(adjacent stay adjacent, separated stay separated); a tag standing alone on an unindented line stays alone and
unindented; an enclosed list/table is blank-line separated from the tag lines and still parses as list/table.
E-RE lemmas on the line predicates live in checks/c06_re.py (run from main()).
"""
from __future__ import annotations

import sys
from typing import Any

from oracles import wrapcheck as WC
from skeletons import contexts as K
from skeletons import docs as DOCS
from skeletons import words as V

MODULE = "checks.c06"

PAIRS: list[tuple[str, list[str]]] = [
    ("tag tag", ["{% qza %}", "{% qzb %}"]),
    ("tag close", ["{% qza %}", "{% /qza %}"]),
    ("comment comment", ["<!-- qza -->", "<!-- qzb -->"]),
    ("var var", ["{{ qza }}", "{{ qzb }}"]),
    ("jcomment jcomment", ["{# qza #}", "{# qzb #}"]),
    ("tag code", ["{% qza %}", "`qzb qzc`"]),
    ("code tag", ["`qzb qzc`", "{% qza %}"]),
    ("tag link", ["{% qza %}", "[qzb qzc](http://u/qzd)"]),
    ("html html", ['<span a="b c">', "</span>"]),
    ("tag-pair", ["{% qza %}{% /qza %}"]),
    ("comment-pair", ["<!-- qza --><!-- /qza -->"]),
    ("var-pair", ["{{ qza }}{{ /qza }}"]),
    ("tag-pair-text", ["{% qza %}qzb{% /qza %}"]),
    ("three tags", ["{% qza %}", "{% qzb %}", "{% /qza %}"]),
    ("pair pair", ["{% qza %}{% /qza %}", "{% qzb %}{% /qzb %}"]),
    ("tag,", ["{% qza %},", "{% qzb %}."]),
    ("code code", ["`qza qzb`", "`qzc`"]),
    ("link link", ["[qza qzb](u)", "[qzc][qzd]"]),
    ("image", ['![qza qzb](u "qzc qzd")']),
    ("autolink", ["<http://u/qza>"]),
    ("long-tag", ['{% qza qzb="qzc qzd" qze=1 %}']),
    ("multi-bt", ["``qza ` qzb``"]),
    # a sentence end inside the construct (semantic mode must not break there)
    ("code-inner-end", ["`qza qzb. qzc`"]),
    ("link-inner-end", ["[qza qzb. qzc](http://u/qzd)"]),
    ("tag-inner-end", ["{% qza qzb. qzc %}"]),
    ("comment-inner-end", ["<!-- qza qzb. qzc -->"]),
    ("html-inner-end", ['<span title="qza qzb. qzc">']),
    ("image-title-inner-end", ['![qza](u "qzb qzc. qzd")']),
    ("var-inner-end", ["{{ qza qzb? qzc }}"]),
    ("link-end-then-sentence", ["[qza qzb! qzc](u).", "qzd"]),
    # "+" between two entries: adjacent in the source (no space), not a paired open/close
    ("tag+tag", ["{% qza %}", "+", "{% qzb %}"]),
    ("comment+comment", ["<!-- qza -->", "+", "<!-- qzb -->"]),
    ("comment+comment+comment", ["<!-- qza -->", "+", "<!-- .qzb -->", "+", "<!-- #qzc -->"]),
    ("var+var", ["{{ qza }}", "+", "{{ qzb }}"]),
    ("jcomment+jcomment", ["{# qza #}", "+", "{# qzb #}"]),
    ("close+open", ["{% /qza %}", "+", "{% qzb %}"]),
]

TAGBLOCKS: list[tuple[str, str, str]] = [
    # name, doc, enclosed kind
    ("para", "{% qza %}\nqaa qab qac qad\n{% /qza %}\n", "para"),
    ("list", "{% qza %}\n- qaa qab qac\n- qad\n{% /qza %}\n", "list"),
    ("olist", "{% qza %}\n1. qaa qab qac\n2. qad\n{% /qza %}\n", "list"),
    ("table", "<!-- qza -->\n| qaa | qab |\n|---|---|\n| qac | qad |\n<!-- /qza -->\n", "table"),
    ("list-spaced", "{% qza %}\n\n- qaa qab qac\n- qad\n\n{% /qza %}\n", "list"),
    ("comment-para", "<!-- qza qzb -->\nqaa qab qac qad\n<!-- /qza -->\n", "para"),
    ("nested-tags", "{% qza %}\n{% qzb %}\nqaa qab qac\n{% /qzb %}\n{% /qza %}\n", "para"),
    ("var-line", "qaa qab\n{{ qza }}\nqac qad\n", "para"),
    ("jcomment-list", "{# qza #}\n- qaa qab qac\n- qad\n{# /qza #}\n", "list"),
    ("jcomment-table", "{# qza #}\n| qaa | qab |\n|---|---|\n| qac | qad |\n{# /qza #}\n", "table"),
    ("var-list", "{{ qza }}\n- qaa qab qac\n- qad\n{{ /qza }}\n", "list"),
    ("comment-list", "<!-- qza -->\n1. qaa qab qac\n2. qad\n<!-- /qza -->\n", "list"),
    ("tag-table", "{% qza %}\n| qaa | qab |\n|---|---|\n| qac | qad |\n{% /qza %}\n", "table"),
    ("mixed-tags-list", "<!-- qza -->\n- qaa qab\n{% /qzb %}\n", "list"),
    ("cont-before-close-tag", "{% qza %}\n- qaa\n  qab qac\n{% /qza %}\n", "list"),
    ("cont-before-close-jcomment", "{# qza #}\n- qaa\n  qab qac\n{# /qza #}\n", "list"),
    ("cont-before-close-var", "{{ qza }}\n- qaa\n  qab qac\n{{ /qza }}\n", "list"),
    ("cont-before-close-comment", "<!-- qza -->\n1. qaa\n   qab qac\n<!-- /qza -->\n", "list"),
    ("plus-paren-markers", "{% qza %}\n+ qaa qab\n+ qac\n{% /qza %}\n\n{% qzb %}\n1) qad qae\n2) qaf\n{% /qzb %}\n", "list"),
    ("tab-after-marker", "{% qza %}\n-\tqaa qab\n-\tqac\n{% /qza %}\n", "list"),
]


def cases(tier: str) -> list[dict[str, Any]]:
    th = tier == "thorough"
    cs: list[dict[str, Any]] = []
    ctxs = [c for c in (K.K_ALL if th else ["top", "bullet", "quote", "footnote-long"]) if c != "task"]
    n = 4 if th else 3
    singles = [(nm, ws) for nm, ws in DOCS.ATOMS if nm not in ("esc-period", "esc-star", "em", "strong", "del")]
    for ctx in ctxs:
        for name, ws in singles + PAIRS:
            for pos in (range(0, n + 1) if th else (0, 1, n)):
                words = V.toks(n)
                glued = []
                ws2 = []
                for w in ws:
                    if w == "+":
                        glued.append(pos + len(ws2) - 1)
                    else:
                        ws2.append(w)
                words = words[:pos] + ws2 + words[pos:]
                for sem in (False, True):
                    cs.append(dict(key=f"para/{ctx}/{name}@{pos}/{'sem' if sem else 'fill'}", kind="para", fam="atom", special=name, ctx=ctx, words=words, glued=glued, sem=sem))
    # construct separated from the next by a newline in the source (kept for tags, reflowed for others)
    for ctx in (["top", "bullet", "quote"] if th else ["top", "bullet"]):
        for name, ws in [("tag", ["{% qza %}"]), ("comment", ["<!-- qza -->"]), ("code", ["`qza qzb`"]), ("link", ["[qza qzb](u)"])]:
            for sem in (False, True):
                a, b = V.toks(2) + ws, V.toks(2, 12)
                cs.append(dict(key=f"nl-after/{ctx}/{name}/{'sem' if sem else 'fill'}", kind="para", fam="atom-nl", special=name, ctx=ctx, words=a + b, plines=[" ".join(a), " ".join(b)],
                               kept=(name in ("tag", "comment")), sem=sem))
    for name, doc, enclosed in TAGBLOCKS:
        for sem in (False, True):
            cs.append(dict(key=f"tagblock/{name}/{'sem' if sem else 'fill'}", kind="tagblock", fam="tagblock", special=name, doc=doc, enclosed=enclosed, sem=sem))
    cs.append(dict(key="twin/para", kind="para", fam="atom", special="twin", ctx="top", words=["qaa", "{% qza %}", "qab"], sem=False, twin=True))
    return cs


def _is_tagline(ln: str) -> bool:
    from oracles.tagblocks import tag_only

    return tag_only(ln)


def run(env: Any, case: dict[str, Any]) -> Any:
    from flowmark import reformat_text
    from oracles.mdshape import shape
    from oracles.tagblocks import separate_tag_blocks

    W = env.int("W")
    if case["kind"] == "para":
        ctx = K.CONTEXTS[case["ctx"]]
        words = [env.text(w) for w in case["words"]]
        glued = set(case.get("glued") or [])
        src = "".join(w + ("" if i in glued else " ") for i, w in enumerate(case["words"])).rstrip(" ")
        plines = [env.text(p) for p in case.get("plines", [src])]
        doc = env.text(K.embed(ctx, plines))
        out = reformat_text(doc, width=W, semantic=case["sem"], cleanups=False)
        lines = K.para_lines_of(ctx, out)
        if case.get("twin"):
            env.prove(len(lines) == 1, "atomic:intact", "twin: claims the paragraph is never wrapped")
            return out
        breaks = None
        if case.get("kept"):
            # index of the last word of the first source line within `words`
            breaks = {len(case["words"]) - 2 - 1: "soft"}
        try:
            WC.read_lines(words, lines, env.text(ctx.first_out), env.text(ctx.cont_out), breaks, glued)
        except WC.Mismatch as m:
            env.prove(False, f"atomic:{m.kind}", {"why": str(m), "out": out})
            return out
        env.prove(True, "atomic:intact")
        return out
    if case["kind"] == "tagblock":
        doc = env.text(case["doc"])
        out = reformat_text(doc, width=W, semantic=case["sem"], cleanups=False)
        src_tag_lines = [ln for ln in doc.split("\n") if _is_tagline(ln)]
        olines = out.rstrip("\n").split("\n")
        out_tag_lines = [ln for ln in olines if _is_tagline(ln)]
        env.prove(out_tag_lines == src_tag_lines, "tagline:stays-alone-unindented", {"src": src_tag_lines, "out": out})
        if case["enclosed"] in ("list", "table"):
            # the enclosed block is separated from both tag lines by a blank line and still is a list/table
            idx = [i for i, ln in enumerate(olines) if _is_tagline(ln)]
            ok = len(idx) >= 2 and olines[idx[0] + 1] == "" and olines[idx[-1] - 1] == ""
            env.prove(ok, "tagblock:blank-line-separated", {"out": out})
            s = shape(out)
            kinds = [b[0] for b in s[1]]
            env.prove(case["enclosed"] in kinds and kinds.count("para") == len(src_tag_lines), "tagblock:still-a-" + case["enclosed"], {"kinds": kinds, "out": out})
        env.prove(shape(out) == shape(separate_tag_blocks(doc)), "tagblock:shape", {"out": out})
        return out
    raise ValueError(case["kind"])


SEPARATED_TAGS = {"tag tag", "tag close", "comment comment", "var var", "jcomment jcomment", "three tags", "pair pair"}


def key_fn(case: dict[str, Any], label: str, item: dict[str, Any], conc: dict[str, Any]) -> str:
    if case["special"] in SEPARATED_TAGS and label == "atomic:words":
        # two tags/comments of the same family separated by one space in the source
        return "separated-tags/atomic:words"
    if case.get("sem") and label == "atomic:words" and (str(case["special"]).endswith("-inner-end") or case["special"] == "link-end-then-sentence"):
        # semantic mode only: a sentence end inside a construct
        return "sentence-end-inside-construct/atomic:words"
    return f"{case['fam']}[{str(case['special']).replace(' ', '_')}]/{label}"


def what_fn(case: dict[str, Any], label: str, item: dict[str, Any], conc: dict[str, Any]) -> str:
    f = [x for x in conc.get("failed", []) if x["label"] == label]
    return f"{label} | case {case['key']} model={item['model']} detail={str(f[0]['detail'] if f else '')[:400]!r}"


def main() -> int:
    from checks import common as C
    from engines import driver as D

    ev = C.Evidence("C06", "model_checking")
    cs = cases(C.tier())
    # the E-RE lemmas are single-threaded z3 work: run them in a separate *process* beside the (multi-process) sweep
    # (a thread would be unsafe: the sweep forks workers, and forking a process that has a running thread can deadlock)
    import json as _json
    import subprocess as _sp
    import tempfile as _tf

    lem_out = _tf.NamedTemporaryFile(prefix="c06re_", suffix=".json", delete=False).name
    lem_proc = _sp.Popen([sys.executable, "-m", "checks.c06_re", lem_out], cwd=str(C.VERIF), env=dict(__import__("os").environ, PYTHONPATH=str(C.VERIF) + __import__("os").pathsep + __import__("os").environ.get("PYTHONPATH", "")))
    findings, harness = D.run_check("C06", MODULE, cs, ev, key_fn, sample_paths=2 if C.tier() == "quick" else 4, max_paths=30000, what_fn=what_fn)
    try:
        lem_proc.wait(timeout=3600)
        doc = _json.load(open(lem_out))
        findings += [C.Finding(**f) for f in doc["findings"]]
        harness += doc["harness"]
        lem = doc["info"]
    except Exception as e:  # noqa: BLE001
        lem_proc.kill()
        lem = {"status": f"lemma process failed or timed out: {type(e).__name__}: {e}"}
    finally:
        try:
            __import__("os").unlink(lem_out)
        except OSError:
            pass
    ev.add(
        rule="case = (context, construct(s), position, mode) or tag-block skeleton; state = feasible path; obligation: reference word reader accepts the output (constructs intact, separators as in the source), tag lines stay alone",
        functions_encoded=["reformat_api.reformat_text (whole pipeline)", "text_wrapping._HtmlMdWordSplitter / atomic_patterns (through it)", "tag_handling.add_tag_newline_handling, preprocess_tag_block_spacing (through it)"],
        bounds="<=4 plain tokens + 1-3 constructs from the listed vocabulary; all lengths (incl. tokens inside constructs) and W unbounded",
        re_lemmas=lem,
        sources=C.source_hashes(["src/flowmark/linewrapping/atomic_patterns.py", "src/flowmark/linewrapping/text_wrapping.py", "src/flowmark/linewrapping/tag_handling.py",
                                 "src/flowmark/linewrapping/block_heuristics.py", "src/flowmark/linewrapping/markdown_filling.py"]),
    )
    ev.assumptions += ["A1/A2 (validated by replay)", "overlap semantics of ATOMIC_CONSTRUCT_PATTERN on arbitrary text is not encoded (backreference); covered only through the construct vocabulary"]
    return C.finish(ev, findings, harness)


if __name__ == "__main__":
    sys.exit(main())
