"""
C12 - formatting always terminates with well-formed output (the part a solver can decide).

Claimed: on every feasible path (all lengths, every W in Z) of every skeleton family and option extreme the real
pipeline returns without raising; the result ends in a newline (Markdown mode), contains no NUL / placeholder
text that was not in the input, and blank lines inside code blocks carry no added trailing space.
NOT claimed (not SMT objects): absence of hangs, running time, arbitrary Unicode soup through Marko.
"""
from __future__ import annotations

import re
import sys
from typing import Any

from skeletons import docs as DOCS
from skeletons import lists as L

MODULE = "checks.c12"

MANY_ATOMS = " ".join(f"qa{c} {{% qz{c} %}}" for c in "abcdefghijklm") + " `qzn qzo` [qzp qzr](u) <b> qan"
EXTRA: list[tuple[str, str]] = [
    ("many-atoms", MANY_ATOMS + "\n"),
    ("many-atoms-list", "- " + MANY_ATOMS + "\n"),
    ("placeholder-lookalike", "qaa \x00AC0\x00 qab {% qza %} AC1 qac \x00AC10\x00 {% qzb %}\n"),
    ("nul-in-text", "qaa\x00qab qac\n"),
    ("code-blank-lines", "> - qaa\n>\n>   ```\n>   a\n>\n>\n>   b\n>   ```\n"),
    ("code-blank-lines-list", "1. qaa\n\n   ~~~\n\n   x\n\n   ~~~\n"),
    ("code-only-blank", "```\n\n\n```\n"),
    ("code-trailing-ws", "```\na  \n   \nb\t\n```\n"),
    ("empty", ""),
    ("blank-only", "\n\n   \n"),
    ("heading-only", "# qaa"),
    ("deep-nest", "> > - 1. > qaa qab qac qad\n"),
    ("long-word", "qaa " + "x" * 300 + " qab\n"),
    ("tabs", "qaa\tqab\t\tqac\n\t- qad\n"),
    ("crlf", "qaa qab\r\nqac\r\n\r\n- qad\r\n"),
    ("unbalanced", "qaa **qab *qac `qad [qae](qaf <qag {% qah\n"),
    ("only-markers", "-\n\n1.\n\n>\n\n#\n"),
    ("table-ragged", "| qaa | qab\n|--|\n| qac | qad | qae |\n"),
    ("fm-unclosed-no-newline", "---\ntitle: qaa\nauthor: qab"),
    ("fm-only-no-newline", "---\nk: qaa\n---"),
    ("fm-closed-no-newline", "---\nk: v\n---\nqaa qab"),
    ("no-final-newline", "qaa qab"),
    ("code-no-final-newline", "```\nqaa\n```"),
    ("many-code-links", " ".join(f"[`qz{c}`](http://u/{c})" for c in "abcdefghijklmn") + " qaa\n"),
    ("many-code-in-tags", "- " + " ".join(f'<a title="`qz{c}`"> {{% qy{c} `qx{c}` %}}' for c in "abcdefghijkl") + " qaa\n"),
    ("many-links-sentences", " ".join(f"qa{c} [`qz{c}`](u{c}). " for c in "abcdefghijklm") + "qan\n"),
    ("open-link-dest", "qaa [qab](qac qad qae qaf qag qah qai qaj qak qal qam\n"),
    ("open-bracket-run", "qaa [[[[[[[[[[qab qac qad ((((((((qae qaf <<<<<<<qag {{{{{{qah qai qaj\n"),
    # empty wrapped segments under an active prefix: a container paragraph that starts with a hard break, two hard breaks in a row
    ("quote-leading-hardbreak", "> \\\n> qaa\n"),
    ("quote-double-hardbreak", "> qaa\\\n> \\\n> qab\n"),
    ("item-double-hardbreak", "- qaa  \n    \\\n  qab\n"),
    ("item-leading-hardbreak", "1. \\\n   qaa qab\n"),
    ("list-code-blank-quote", "> 1. qaa\n>\n>    ```\n>    a\n>\n>    b\n>    ```\n"),
]


def cases(tier: str) -> list[dict[str, Any]]:
    th = tier == "thorough"
    fams = DOCS.all_families(tier) + list(DOCS.typo(tier)) + list(DOCS.front(tier)) + list(DOCS.verbatim(tier)) + list(L.heading_docs(tier))
    if th:
        fams += list(L.list_docs("quick"))
    fams += [dict(key=f"extra/{n}", fam="extra", special=n, doc=d) for n, d in EXTRA]
    cs: list[dict[str, Any]] = []
    for c in fams:
        for oi, o in enumerate([dict(semantic=False, cleanups=False, smartquotes=False, ellipses=False, list_spacing="preserve"),
                                dict(semantic=True, cleanups=True, smartquotes=True, ellipses=True, list_spacing="loose")] + ([dict(semantic=True, cleanups=True, smartquotes=True, ellipses=True, list_spacing="tight")] if th else [])):
            if not th and c.get("fam") == "para" and oi == 0 and not c["key"].endswith("@2"):
                continue
            d = dict(c)
            d.update(opts=o, key=f"{c['key']}/o{oi}")
            cs.append(d)
    for c in list(DOCS.plain(tier)) + [dict(key=f"extra/{n}", fam="extra", special=n, doc=d) for n, d in EXTRA]:
        d = dict(c)
        d.update(plaintext=True, key=c["key"] + "/plaintext")
        cs.append(d)
    cs.append(dict(key="twin", fam="extra", special="twin", doc="qaa qab\n", opts=dict(semantic=False, cleanups=False, smartquotes=False, ellipses=False, list_spacing="preserve"), twin=True))
    return cs


_PLACEHOLDER = re.compile(r"\x00AC\d+\x00")


def run(env: Any, case: dict[str, Any]) -> Any:
    from flowmark import reformat_text
    from flowmark.formats.flowmark_markdown import ListSpacing

    W = env.int("W")
    doc = env.text(DOCS.doc_of(case))
    if case.get("plaintext"):
        out = reformat_text(doc, width=W, plaintext=True)
    else:
        o = dict(case["opts"])
        o["list_spacing"] = ListSpacing(o["list_spacing"])
        out = reformat_text(doc, width=W, **o)
    if case.get("twin"):
        env.prove(not out.endswith("\n"), "wellformed:ends-with-newline", "twin: claims the output never ends in a newline")
        return out
    env.prove(isinstance(out, str), "wellformed:is-str", type(out).__name__)
    if not case.get("plaintext"):
        env.prove(out.endswith("\n"), "wellformed:ends-with-newline", {"out": out[-40:]})
    env.prove(out.count("\x00") <= doc.count("\x00"), "wellformed:no-new-nul", {"out": out})
    env.prove(len(_PLACEHOLDER.findall(out)) <= len(_PLACEHOLDER.findall(doc)), "wellformed:no-placeholder", {"out": out})
    if not case.get("plaintext"):
        # blank lines inside code blocks carry no added trailing space
        in_code = False
        fence = ""
        for ln in out.split("\n"):
            body = re.sub(r"^[ >]*", "", ln)
            m = re.match(r"(`{3,}|~{3,})", body)
            if m and not in_code:
                in_code, fence = True, m.group(1)
                continue
            if in_code and m and body.strip() == m.group(1) and m.group(1)[0] == fence[0] and len(m.group(1)) >= len(fence):
                in_code = False
                continue
            if in_code and not body.strip() and not ln.strip(" >"):
                env.prove(ln == ln.rstrip(" "), "wellformed:no-trailing-space-in-code-blank-line", {"line": ln, "out": out})
    return out


def key_fn(case: dict[str, Any], label: str, item: dict[str, Any], conc: dict[str, Any]) -> str:
    return f"{DOCS.finding_class(case)}/{label}"


def what_fn(case: dict[str, Any], label: str, item: dict[str, Any], conc: dict[str, Any]) -> str:
    f = [x for x in conc.get("failed", []) if x["label"] == label]
    return f"{label} | case {case['key']} model={item['model']} detail={str(f[0]['detail'] if f else conc.get('exc', ''))[:500]!r}"


PUMP = (6, 40)
PUMP_LIMIT_S = 30


def _pumped(cs: list[dict[str, Any]], findings: list[Any]) -> dict[str, Any]:
    """
    Concrete observations, not solver verdicts: every skeleton of this check instantiated with all word lengths = 6 and
    = 40 is formatted by the unpatched code under a wall-clock limit.  A run that does not return is a violation of
    the property whatever else holds (and would otherwise show up as a stuck replay); the well-formedness obligations
    are re-checked on these longer documents.
    """
    from checks import common as C
    from engines import symlen as S

    jobs, meta = [], []
    for c in cs:
        if c.get("twin"):
            continue
        doc = DOCS.doc_of(c)
        toks = set(S.TOK_RE.findall(doc))
        for n in PUMP:
            text = S.instantiate(doc, {"L_" + t: n for t in toks})
            kw = dict(width=40, plaintext=True) if c.get("plaintext") else dict(c["opts"], width=40)
            jobs.append({"op": "reformat_text", "text": text, "kwargs": kw, "limit_s": PUMP_LIMIT_S, "timed": True})
            meta.append((c, n, text))
    slowest = 0.0
    nfail = 0
    seen: set[str] = set()
    for (c, n, text), rr in zip(meta, C.replay_batch(jobs)):
        label = None
        if rr.get("timeout"):
            label, detail = "terminates:pumped-returns-within-limit", rr["exc"]
        elif "exc" in rr:
            label, detail = "exception:" + rr["exc"].split(":")[0] + ":pumped", rr["exc"]
        else:
            out = rr["out"]
            slowest = max(slowest, rr.get("seconds", 0.0))
            if not c.get("plaintext") and not out.endswith("\n"):
                label, detail = "wellformed:ends-with-newline:pumped", out[-40:]
            elif out.count("\x00") > text.count("\x00") or len(_PLACEHOLDER.findall(out)) > len(_PLACEHOLDER.findall(text)):
                label, detail = "wellformed:no-placeholder:pumped", out[:300]
        if label:
            nfail += 1
            key = f"{DOCS.finding_class(c)}/{label}"
            if key not in seen:
                seen.add(key)
                findings.append(C.Finding("C12", key, f"{label} | case {c['key']} all lengths={n} width=40: {str(detail)[:300]!r} input={text[:200]!r}",
                                          {"op": "reformat_text", "text": text, "kwargs": jobs[0]["kwargs"] if False else (dict(width=40, plaintext=True) if c.get("plaintext") else dict(c["opts"], width=40)), "limit_s": PUMP_LIMIT_S, "label": label}))
    return {"documents": len(jobs), "lengths": list(PUMP), "limit_s": PUMP_LIMIT_S, "slowest_s": slowest, "failed": nfail, "kind": "concrete replays on unpatched code; observations, not solver verdicts"}


def main() -> int:
    from checks import common as C
    from engines import driver as D

    ev = C.Evidence("C12", "other")
    cs = cases(C.tier())
    findings, harness = D.run_check("C12", MODULE, cs, ev, key_fn, sample_paths=1 if C.tier() == "quick" else 2, what_fn=what_fn)
    pumped = _pumped(cs, findings)
    ev.add(
        explanation="Bounded symbolic exploration (symlen over z3) of reformat_text on every skeleton family of this framework plus degenerate inputs: each feasible path (all word lengths, every "
        "integer width) must return a str without raising, end in a newline, introduce no NUL/placeholder, and add no trailing space to blank code lines. A path that raises is reported as "
        "exception:<Type> after replay. Termination in bounded time, regex backtracking cost and arbitrary Unicode are outside what an SMT query can express and are not claimed.",
        evaluations=ev.coverage.get("states", 0),
        distinct_nontrivial=ev.coverage.get("states", 0),
        rule="case = (skeleton, option extreme | plaintext); one evaluation = one feasible path; all distinct (paths partition the integer space)",
        functions_encoded=["reformat_api.reformat_text (Markdown and plaintext)"],
        not_claimed=["no hang / running time as a solver verdict (see pumped_replays: concrete observations with a wall-clock limit)", "arbitrary Unicode text through Marko"],
        pumped_replays=pumped,
        sources=C.source_hashes(["src/flowmark/reformat_api.py", "src/flowmark/linewrapping/markdown_filling.py", "src/flowmark/linewrapping/text_wrapping.py", "src/flowmark/formats/flowmark_markdown.py"]),
    )
    return C.finish(ev, findings, harness)


if __name__ == "__main__":
    sys.exit(main())
