"""Shared plumbing for all checks: tiers, worker pools, unpatched replay, findings, evidence."""
from __future__ import annotations

import hashlib
import json
import multiprocessing as mp
import os
import random
import subprocess
import sys
import tempfile
import time
from dataclasses import dataclass, field
from pathlib import Path
from typing import Any, Callable, Iterable, Iterator

VERIF = Path(__file__).resolve().parent.parent
REPO = Path(os.environ.get("FLOWMARK_REPO", "/repo"))
PY = sys.executable
NPROC = int(os.environ.get("VERIF_NPROC", "16"))

EXIT_OK, EXIT_VIOLATION, EXIT_HARNESS = 0, 1, 3


def tier() -> str:
    t = os.environ.get("VERIF_TIER", "quick")
    return t if t in ("quick", "thorough") else "quick"


def seed() -> int:
    try:
        return int(os.environ.get("VERIF_SEED", "0"))
    except ValueError:
        return 0


def rng(tag: str = "") -> random.Random:
    return random.Random(f"{seed()}:{tag}")


# ------------------------------------------------------------------------------------------
# source hashes: evidence names the code that was actually encoded / executed
# ------------------------------------------------------------------------------------------


def source_hashes(rel_files: Iterable[str]) -> dict[str, str]:
    out = {}
    for f in rel_files:
        p = REPO / f
        try:
            out[f] = hashlib.sha256(p.read_bytes()).hexdigest()[:16]
        except OSError:
            out[f] = "missing"
    return out


def repo_head() -> str:
    try:
        h = subprocess.run(["git", "-C", str(REPO), "rev-parse", "--short", "HEAD"], capture_output=True, text=True).stdout.strip()
        d = subprocess.run(["git", "-C", str(REPO), "status", "--porcelain", "--", "src"], capture_output=True, text=True).stdout.strip()
        return h + ("+dirty" if d else "")
    except Exception:
        return "unknown"


# ------------------------------------------------------------------------------------------
# parallel exploration (fork pool: children inherit the patched flowmark modules)
# ------------------------------------------------------------------------------------------


def parallel(worker: Callable[[Any], Any], jobs: list[Any], nproc: int | None = None, chunksize: int = 1) -> Iterator[Any]:
    nproc = nproc or NPROC
    if nproc <= 1 or len(jobs) <= 1:
        for j in jobs:
            yield worker(j)
        return
    ctx = mp.get_context("fork")
    with ctx.Pool(min(nproc, len(jobs))) as pool:
        for r in pool.imap_unordered(worker, jobs, chunksize=chunksize):
            yield r


# ------------------------------------------------------------------------------------------
# replay on the unpatched code in fresh interpreters
# ------------------------------------------------------------------------------------------


def replay_batch(jobs: list[dict[str, Any]], nproc: int | None = None) -> list[dict[str, Any]]:
    """Run jobs through engines.replay_worker in fresh, unpatched subprocesses. Order preserved."""
    if not jobs:
        return []
    nproc = min(nproc or NPROC, max(1, len(jobs) // 50 + 1))
    chunks: list[list[tuple[int, dict[str, Any]]]] = [[] for _ in range(nproc)]
    for i, j in enumerate(jobs):
        chunks[i % nproc].append((i, j))
    tmp = Path(tempfile.mkdtemp(prefix="verif_replay_"))
    procs = []
    env = dict(os.environ)
    env["PYTHONPATH"] = str(VERIF) + (os.pathsep + env["PYTHONPATH"] if env.get("PYTHONPATH") else "")
    env.pop("FLOWMARK_VERIF", None)
    try:
        for k, ch in enumerate(chunks):
            if not ch:
                continue
            fin, fout = tmp / f"in{k}.json", tmp / f"out{k}.json"
            fin.write_text(json.dumps([j for _, j in ch]))
            p = subprocess.Popen([PY, "-m", "engines.replay_worker", str(fin), str(fout)], cwd=str(VERIF), env=env, stdout=subprocess.PIPE, stderr=subprocess.PIPE)
            procs.append((k, ch, fout, p))
        results: list[Any] = [None] * len(jobs)
        for k, ch, fout, p in procs:
            try:
                so, se = p.communicate(timeout=1800)
            except subprocess.TimeoutExpired:
                p.kill()
                raise RuntimeError("replay worker did not finish within 30 minutes (the code under replay hangs?)")
            if p.returncode != 0:
                raise RuntimeError(f"replay worker failed: {se.decode()[-2000:]}")
            res = json.loads(fout.read_text())
            for (i, _), r in zip(ch, res):
                results[i] = r
        return results
    finally:
        import shutil

        shutil.rmtree(tmp, ignore_errors=True)


# ------------------------------------------------------------------------------------------
# findings
# ------------------------------------------------------------------------------------------


@dataclass
class Finding:
    """A reproduced violation of a property, identified by a normal-form key."""

    prop: str
    key: str            # obligation / normal form of the witness
    what: str           # one line, human readable
    replay: dict[str, Any]   # everything needed to re-run it on the real code

    def path(self) -> Path:
        h = hashlib.sha256(json.dumps([self.key, self.replay], sort_keys=True, default=str).encode()).hexdigest()[:12]
        return VERIF / "replays" / self.prop / f"{h}.json"


def load_known() -> list[dict[str, Any]]:
    p = VERIF / "known_findings.json"
    if not p.exists():
        return []
    return json.loads(p.read_text()).get("findings", [])


def report(prop: str, findings: list[Finding]) -> int:
    """Print KNOWN-FINDING / VIOLATION lines. Return the exit code. Never writes known_findings.json."""
    known = {(k["property"], k["key"]) for k in load_known() if k.get("status") == "known"}
    by_key: dict[str, Finding] = {}
    for f in findings:
        by_key.setdefault(f.key, f)
    code = EXIT_OK
    for key in sorted(by_key):
        f = by_key[key]
        if (prop, key) in known:
            print(f"KNOWN-FINDING: property={prop} key={key} {f.what}")
            continue
        p = f.path()
        p.parent.mkdir(parents=True, exist_ok=True)
        p.write_text(json.dumps({"property": prop, "key": key, "what": f.what, "replay": f.replay}, indent=1, default=str))
        print(f"VIOLATION property={prop} replay={p}  key={key}  {f.what}")
        code = EXIT_VIOLATION
    return code


# ------------------------------------------------------------------------------------------
# evidence
# ------------------------------------------------------------------------------------------


@dataclass
class Evidence:
    prop: str
    level: str
    t0: float = field(default_factory=time.time)
    coverage: dict[str, Any] = field(default_factory=dict)
    assumptions: list[str] = field(default_factory=list)
    samples: list[Any] = field(default_factory=list)
    violations: int = 0

    def add(self, **kw: Any) -> None:
        for k, v in kw.items():
            if isinstance(v, (int, float)) and not isinstance(v, bool) and isinstance(self.coverage.get(k), (int, float)):
                self.coverage[k] += v
            else:
                self.coverage[k] = v

    def sample(self, s: Any, cap: int = 12) -> None:
        if len(self.samples) < cap:
            self.samples.append(s)

    def write(self) -> Path:
        cov = dict(self.coverage)
        cov["samples"] = self.samples or [{"note": "no sample recorded"}]
        for k, v in list(cov.items()):
            if isinstance(v, float):
                cov[k] = round(v, 3)
        doc = {
            "property_id": self.prop,
            "tier": tier(),
            "seed": seed(),
            "level": self.level,
            "coverage": cov,
            "assumptions": self.assumptions,
            "wall_s": round(time.time() - self.t0, 2),
            "violations": self.violations,
            "repo_head": repo_head(),
        }
        p = VERIF / "evidence" / f"{self.prop}.json"
        p.parent.mkdir(exist_ok=True)
        p.write_text(json.dumps(doc, indent=1, default=str))
        return p


def finish(ev: Evidence, findings: list[Finding], harness_errors: list[str], core_ok: bool = True) -> int:
    """Common epilogue: write evidence, print lines, pick the exit code."""
    known = {(k["property"], k["key"]) for k in load_known() if k.get("status") == "known"}
    keys = {f.key for f in findings}
    listed = sorted(k for k in keys if (ev.prop, k) in known)
    # `violations` = reproduced violations NOT listed in known_findings.json (what makes the check exit 1)
    ev.violations = len(keys) - len(listed)
    ev.add(known_findings_reproduced=listed, harness_errors=len(harness_errors))
    if harness_errors:
        ev.coverage["harness_error_samples"] = harness_errors[:5]
    ev.write()
    # A confirmed, unlisted violation is reported even if some other obligation hit a harness error:
    # a harness problem must never hide a reproduced counterexample.
    code = report(ev.prop, findings)
    if harness_errors:
        for h in harness_errors[:10]:
            print(f"HARNESS-ERROR property={ev.prop} {h}", file=sys.stderr)
        return code if code == EXIT_VIOLATION else EXIT_HARNESS
    if not core_ok:
        print(f"HARNESS-ERROR property={ev.prop} core obligations not discharged", file=sys.stderr)
        return code if code == EXIT_VIOLATION else EXIT_HARNESS
    return code
