"""
C18 - gitignore handling agrees with git  (E-RE: z3 regex theory, git as the replay oracle).

1. TRACE: the real FileResolver._walk_directory runs on a marker tree  root/mkone/mktwo/mkfile.md  with load_gitignore
   replaced by tracing specs; every (gitignore directory, string handed to match_file) pair is recorded and turned
   into a template over the path components (mkone -> d1, mktwo -> d2, mkfile.md -> f).  The implementation side of
   the formula is therefore derived from the code as it is now, on every run.
2. For each .gitignore (one or two lines from a bounded grammar, placed at the root or in d1) the regexes pathspec
   compiles for its lines are translated (re2smt) and two formulas are built over symbolic components d1, d2, f:
     impl(d1,d2,f) = some traced call hands pathspec a string it decides "ignored" (last matching line wins)
     git(d1,d2,f)  = gitignore semantics on the path relative to the .gitignore's directory: an ignored parent
                     directory ignores everything below it, otherwise the last matching line decides the file
   z3 is asked for components with impl != git.
3. Every model is replayed in a real `git init` sandbox: `git check-ignore` vs FileResolver.resolve; only a real
   disagreement is reported.  The same run checks the reference itself against git (a model on which my git formula
   and real git disagree is a reference error, reported as harness error, not as a finding).
4. --no-respect-gitignore: the trace must contain no gitignore call at all, and a tree with `*.md` ignored lists everything.
"""
from __future__ import annotations

import os
import shutil
import subprocess
import sys
import tempfile
import time
import warnings
from pathlib import Path
from typing import Any

import z3

MAXC = 3
SEGS = ["a", "b", "*", "a*", "*.md", "a.md", "?", "ab"]


def gitignores(tier: str) -> list[tuple[str, list[str]]]:
    th = tier == "thorough"
    out: list[tuple[str, list[str]]] = []
    segs = SEGS if th else ["a", "*", "a*", "*.md", "a.md"]
    for s in segs:
        out += [("plain", [s]), ("leading-slash", ["/" + s]), ("trailing-slash", [s + "/"]), ("path", ["a/" + s]), ("anchored-path", ["/a/" + s]),
                ("double-star-prefix", ["**/" + s]), ("star-dir", ["*/" + s]), ("double-star-middle", ["a/**/" + s])]
    out += [("double-star-suffix", ["a/**"]), ("double-star-suffix", ["b/**"])]
    for base in ["*.md", "a*"]:
        for neg in ["a.md", "ab.md", "a/a.md", "/a.md"]:
            out.append(("negation", [base, "!" + neg]))
    out += [("negation-dir", ["a/", "!a/a.md"]), ("negation-first", ["!a.md", "*.md"])]
    # last-match-wins with repeated rules, comments and blank lines
    out += [("re-ignore", ["*.md", "!a.md", "*.md"]), ("re-ignore", ["a*", "!ab.md", "a*"]), ("re-include", ["!a.md", "*.md", "!a.md"]),
            ("re-ignore-dir", ["x/", "!x/", "x/"]), ("comments", ["# *.md", "", "a.md"]), ("comments", ["*.md", "#!a.md"]), ("duplicate", ["a.md", "a.md"])]
    seen, res = set(), []
    for form, lines in out:
        k = tuple(lines)
        if k not in seen:
            seen.add(k)
            res.append((form, lines))
    return res


# ------------------------------------------------------------------------------------------
# 1. trace of the real traversal
# ------------------------------------------------------------------------------------------


def trace_templates(respect: bool = True, siblings: bool = False, overlap: bool = False) -> list[tuple[str, str]]:
    import flowmark.file_resolver.resolver as R
    from flowmark.file_resolver import FileResolver, FileResolverConfig

    calls: list[tuple[str, str]] = []
    base = Path(tempfile.mkdtemp(prefix="c18t_")).resolve()
    root = base / "root"

    class TraceSpec:
        def __init__(self, directory: Path):
            self.origin = str(Path(directory).resolve().relative_to(root)) if Path(directory).resolve() != root else ""

        def match_file(self, arg: Any) -> bool:
            calls.append((self.origin if self.origin != "." else "", str(arg), cur_top[0]))  # type: ignore[arg-type]
            return False

    real, real_walk = R.load_gitignore, R.os.walk

    cur_top = [""]

    def walk(top: Any, *a: Any, **kw: Any) -> Any:
        cur_top[0] = str(Path(top).resolve())
        for dp, dn, fn in real_walk(top, *a, **kw):
            dn.sort()   # mk0sib is visited before mkone, mkzsib after it
            yield dp, dn, fn

    try:
        (root / "mkone" / "mktwo").mkdir(parents=True)
        (root / "mkone" / "mktwo" / "mkfile.md").write_text("x\n")
        if siblings:
            for pre in ("mk0", "mkz"):
                (root / f"{pre}sib" / f"{pre}sub").mkdir(parents=True)
                (root / f"{pre}sib" / f"{pre}sub" / f"{pre}file.md").write_text("x\n")
        R.load_gitignore = lambda d: TraceSpec(d)
        R.os.walk = walk
        # overlap: one resolver, two traversal roots, the outer one first (state kept between the walks is in play)
        res = FileResolver(FileResolverConfig(respect_gitignore=respect)).resolve([root, root / "mkone"] if overlap else [root])
        if len(res) != (3 if siblings else 1):
            raise RuntimeError(f"marker tree resolved to {res}")
    finally:
        R.load_gitignore = real
        R.os.walk = real_walk
        shutil.rmtree(base, ignore_errors=True)
    out = []
    for origin, arg, top in calls:  # type: ignore[misc]
        if overlap:
            # calls made during the walk rooted at mkone on the spec of a .gitignore above that root
            if top == str(root / "mkone") and origin == "":
                out.append((origin, arg))
        elif siblings:
            # calls about a sibling branch (before or after mkone in the walk) made on the spec of mkone's own .gitignore
            if origin.startswith("mkone") and any(m in arg for m in ("mk0", "mkz")):
                out.append((origin, arg.replace("mk0", "mkz")))
        elif any(m in arg for m in ("mkone", "mktwo", "mkfile")):
            out.append((origin, arg))
    return sorted(set(out))


def _template_term(arg: str, d1: Any, d2: Any, f: Any, markers: tuple[str, str, str] = ("mkfile.md", "mkone", "mktwo")) -> Any:
    """'mkone/mktwo/' -> Concat(d1, '/', d2, '/')"""
    parts: list[Any] = []
    rest = arg
    while rest:
        for marker, var in ((markers[0], f), (markers[1], d1), (markers[2], d2)):
            if rest.startswith(marker):
                parts.append(var)
                rest = rest[len(marker):]
                break
        else:
            i = min([rest.find(m) for m in markers if rest.find(m) > 0] or [len(rest)])
            parts.append(z3.StringVal(rest[:i]))
            rest = rest[i:]
    return parts[0] if len(parts) == 1 else z3.Concat(*parts)


# ------------------------------------------------------------------------------------------
# 2. formulas
# ------------------------------------------------------------------------------------------


def _line_langs(lines: list[str]) -> list[tuple[Any, bool]]:
    from engines import re2smt
    from pathspec.patterns import GitWildMatchPattern

    out = []
    with warnings.catch_warnings():
        warnings.simplefilter("ignore")
        for ln in lines:
            p = GitWildMatchPattern(ln)
            if p.regex is None:
                continue
            out.append((re2smt.match_lang_tail(p.regex), bool(p.include)))
    return out


def _decide(x: Any, langs: list[tuple[Any, bool]]) -> Any:
    """last matching line wins; no match = not ignored"""
    r: Any = z3.BoolVal(False)
    for lang, include in langs:
        r = z3.If(z3.InRe(x, lang), z3.BoolVal(include), r)
    return r


def _impl_langs(lines: list[str]) -> list[tuple[Any, bool]]:
    """the patterns flowmark itself loads from a .gitignore with these lines (real _read_ignore_file: comment, blank-line
    and any other line handling included), translated from the regexes of the PathSpec it returns"""
    from engines import re2smt
    from flowmark.file_resolver.gitignore import _read_ignore_file

    d = Path(tempfile.mkdtemp(prefix="c18g_"))
    try:
        (d / ".gitignore").write_text("\n".join(lines) + "\n")
        spec = _read_ignore_file(d / ".gitignore")
    finally:
        shutil.rmtree(d, ignore_errors=True)
    if spec is None:
        return []
    return [(re2smt.match_lang_tail(p.regex), bool(p.include)) for p in spec.patterns if getattr(p, "regex", None) is not None]


def formulas(lines: list[str], origin: str, templates: list[tuple[str, str]], d1: Any, d2: Any, f: Any) -> tuple[Any, Any]:
    langs = _line_langs([ln for ln in lines if ln.strip() and not ln.startswith("#")])   # git's reading of the file
    impl_langs = _impl_langs(lines)                                                        # flowmark's reading of the file
    S = z3.StringVal
    impl = z3.Or([_decide(_template_term(arg, d1, d2, f), impl_langs) for o, arg in templates if o == origin] + [z3.BoolVal(False)])
    if origin == "":
        dirs = [z3.Concat(d1, S("/")), z3.Concat(d1, S("/"), d2, S("/"))]
        rel = z3.Concat(d1, S("/"), d2, S("/"), f)
    else:
        dirs = [z3.Concat(d2, S("/"))]
        rel = z3.Concat(d2, S("/"), f)
    git = z3.Or([_decide(d, langs) for d in dirs] + [_decide(rel, langs)])
    return impl, git


# ------------------------------------------------------------------------------------------
# 3. replay with real git
# ------------------------------------------------------------------------------------------


def replay(lines: list[str], origin_is_root: bool, d1: str, d2: str, f: str, respect: bool = True, gi_dir: str | None = None, overlap: bool = False) -> dict[str, Any]:
    """gi_dir: put the .gitignore in this other top-level directory (scope check: it must not reach d1/d2/f)"""
    base = Path(tempfile.mkdtemp(prefix="c18r_")).resolve()
    root = base / "root"
    try:
        (root / d1 / d2).mkdir(parents=True)
        (root / d1 / d2 / f).write_text("x\n")
        if gi_dir is not None:
            (root / gi_dir / "k").mkdir(parents=True)
            (root / gi_dir / "k" / "k.md").write_text("x\n")
        gi = root / ".gitignore" if origin_is_root else root / (gi_dir if gi_dir is not None else d1) / ".gitignore"
        gi.write_text("\n".join(lines) + "\n")
        env = dict(os.environ, GIT_CONFIG_GLOBAL="/dev/null", GIT_CONFIG_SYSTEM="/dev/null", HOME=str(base))
        subprocess.run(["git", "init", "-q", str(root)], env=env, check=True, capture_output=True)
        r = subprocess.run(["git", "-C", str(root), "check-ignore", "-q", f"{d1}/{d2}/{f}"], env=env, capture_output=True)
        git_ignored = r.returncode == 0
        if overlap:
            # second traversal root d1: git's answer for that root is the one of a repository rooted there
            subprocess.run(["git", "init", "-q", str(root / d1)], env=env, check=True, capture_output=True)
            r = subprocess.run(["git", "-C", str(root / d1), "check-ignore", "-q", f"{d2}/{f}"], env=env, capture_output=True)
            git_ignored = git_ignored and r.returncode == 0   # listed iff kept from at least one of the two roots
            shutil.rmtree(root / d1 / ".git", ignore_errors=True)
        code = (
            "import sys\nfrom flowmark.file_resolver import FileResolver, FileResolverConfig\n"
            f"res = FileResolver(FileResolverConfig(respect_gitignore={respect!r})).resolve([sys.argv[1]]" + (f" + [sys.argv[1] + '/' + {d1!r}]" if overlap else "") + ")\n"
            "print('\\n'.join(str(p) for p in res))\n"
        )
        e2 = dict(os.environ)
        e2.pop("FLOWMARK_VERIF", None)
        try:
            r2 = subprocess.run([sys.executable, "-c", code, str(root)], capture_output=True, text=True, env=e2, cwd=str(root), timeout=60)
        except subprocess.TimeoutExpired:
            return {"git_ignored": git_ignored, "listed": None, "hang": True, "stderr": "FileResolver.resolve did not return within 60 s"}
        listed = str(root / d1 / d2 / f) in r2.stdout.split("\n")
        return {"git_ignored": git_ignored, "listed": listed, "stderr": r2.stderr[-300:]}
    finally:
        shutil.rmtree(base, ignore_errors=True)


# ------------------------------------------------------------------------------------------


def main() -> int:
    from checks import common as C
    from engines import re2smt

    ev = C.Evidence("C18", "translation_validation")
    t0 = time.time()
    harness: list[str] = []
    findings: list[Any] = []
    import signal

    def _alarm(*_a: Any) -> None:
        raise TimeoutError("the traversal of the marker tree did not finish within 60 s")

    signal.signal(signal.SIGALRM, _alarm)
    signal.alarm(60)
    try:
        templates = trace_templates(True)
        templates_off = trace_templates(False)
        sib_templates = trace_templates(True, siblings=True)
        ovl_templates = trace_templates(True, overlap=True)
        signal.alarm(0)
    except Exception as e:  # noqa: BLE001
        signal.alarm(0)
        harness.append(f"trace of _walk_directory failed: {type(e).__name__}: {e}")
        templates, templates_off, sib_templates, ovl_templates = [], [], [], []
    if not templates:
        harness.append("the traversal made no gitignore call on the marker tree (vacuous)")
    if templates_off:
        findings.append(C.Finding("C18", "no-respect-gitignore/still-consulted", f"with respect_gitignore=False the traversal still consults gitignore specs: {templates_off[:4]}",
                                  {"op": "c18", "lines": ["*.md"], "origin_root": True, "d1": "a", "d2": "b", "f": "a.md", "respect": False}))
    d1, d2, f = z3.String("d1"), z3.String("d2"), z3.String("f")
    comp = re2smt.fullmatch_lang(__import__("re").compile(r"[abx]{1,%d}" % MAXC))
    fcomp = re2smt.fullmatch_lang(__import__("re").compile(r"[abx]{1,%d}\.md" % MAXC))
    pre = [z3.InRe(d1, comp), z3.InRe(d2, comp), z3.InRe(f, fcomp)]
    files = gitignores(C.tier())
    nq = nunsat = nsat = nrefused = 0
    solver_s = 0.0
    jobs: list[tuple[str, list[str], bool, str, str, str, bool]] = []
    samples = []
    for form, lines in files:
        for origin in ("", "mkone"):
            try:
                impl, git = formulas(lines, origin, templates, d1, d2, f)
            except re2smt.TranslationRefused as e:
                nrefused += 1
                harness.append(f"pattern {lines} could not be translated: {e}")
                continue
            for want_impl in (True, False):  # ask for both directions of disagreement separately
                s = z3.Solver()
                s.set("timeout", 30000)
                s.add(*pre, impl == z3.BoolVal(want_impl), git == z3.BoolVal(not want_impl))
                t1 = time.time()
                r = s.check()
                solver_s += time.time() - t1
                nq += 1
                if r == z3.unsat:
                    nunsat += 1
                elif r == z3.sat:
                    nsat += 1
                    m = s.model()
                    vals = [m.eval(v, model_completion=True).as_string() for v in (d1, d2, f)]
                    jobs.append((form, lines, origin == "", vals[0], vals[1], vals[2], want_impl))
                else:
                    harness.append(f"solver unknown for {lines} at {origin or 'root'}")
            # reference validation sample: one agreeing model per file and origin (ignored according to both)
            s = z3.Solver()
            s.set("timeout", 30000)
            s.add(*pre, git)
            if s.check() == z3.sat:
                m = s.model()
                vals = [m.eval(v, model_completion=True).as_string() for v in (d1, d2, f)]
                jobs.append(("refcheck", lines, origin == "", vals[0], vals[1], vals[2], None))  # type: ignore[arg-type]
    # ---- scope: a .gitignore in one directory never reaches a sibling directory (visited before or after it)
    scope_q = scope_sat = 0
    scope_jobs: list[tuple[list[str], str, str, str, str]] = []
    if sib_templates:
        s1, s2, g = z3.String("s1"), z3.String("s2"), z3.String("g")
        pre_s = [z3.InRe(s1, comp), z3.InRe(s2, comp), z3.InRe(g, fcomp), z3.InRe(d1, comp), s1 != d1]
        for form, lines in files:
            try:
                il = _impl_langs(lines)
            except re2smt.TranslationRefused:
                continue
            impl_sib = z3.Or([_decide(_template_term(arg, s1, s2, g, ("mkzfile.md", "mkzsib", "mkzsub")), il) for _o, arg in sib_templates] + [z3.BoolVal(False)])
            s = z3.Solver()
            s.set("timeout", 30000)
            s.add(*pre_s, impl_sib)
            t1 = time.time()
            r = s.check()
            solver_s += time.time() - t1
            scope_q += 1
            if r == z3.sat:
                scope_sat += 1
                m = s.model()
                scope_jobs.append((lines, *[m.eval(v, model_completion=True).as_string() for v in (d1, s1, s2, g)]))  # type: ignore[arg-type]
            elif r != z3.unsat:
                harness.append(f"solver unknown for the scope query of {lines}")
    scope_confirmed = 0
    for lines, gd, a, b, c in scope_jobs[:40]:
        # the sibling directory must sort after the .gitignore's directory for an upward leak to be visible
        for gdir, sib in ((gd, a), (min(gd, a), max(gd, a))):
            if gdir == sib:
                continue
            rr = replay(lines, False, sib, b, c, gi_dir=gdir)
            if rr.get("hang") or rr["git_ignored"]:
                continue
            if not rr["listed"]:
                scope_confirmed += 1
                findings.append(C.Finding("C18", "gitignore/scope[nested-file-reaches-sibling-directory]",
                                          f".gitignore {lines} in {gdir}/ hides {sib}/{b}/{c}, which git keeps (a nested .gitignore only applies below its own directory)",
                                          {"op": "c18", "lines": lines, "origin_root": False, "d1": sib, "d2": b, "f": c, "respect": True, "gi_dir": gdir}))
                break
        if scope_confirmed:
            break
    # ---- overlapping traversal roots [root, root/d1] in one resolve(): the walk rooted at d1 must not consult root's .gitignore
    ovl_q = ovl_sat = ovl_confirmed = 0
    if ovl_templates:
        for form, lines in files:
            if ovl_confirmed:
                break
            try:
                il = _impl_langs(lines)
            except re2smt.TranslationRefused:
                continue
            s = z3.Solver()
            s.set("timeout", 30000)
            s.add(z3.InRe(d1, comp), z3.InRe(d2, comp), z3.InRe(f, fcomp), z3.Or([_decide(_template_term(arg, d1, d2, f), il) for _o, arg in ovl_templates]))
            t1 = time.time()
            r = s.check()
            solver_s += time.time() - t1
            ovl_q += 1
            if r == z3.sat:
                ovl_sat += 1
                m = s.model()
                a, b, c = [m.eval(v, model_completion=True).as_string() for v in (d1, d2, f)]  # type: ignore[union-attr]
                rr = replay(lines, True, a, b, c, overlap=True)
                if not rr.get("hang") and not rr["git_ignored"] and not rr["listed"]:
                    ovl_confirmed += 1
                    findings.append(C.Finding("C18", "gitignore/scope[above-root-file-reaches-inner-traversal-root]",
                                              f"resolve([root, root/{a}]): .gitignore {lines} at root hides {a}/{b}/{c} although the traversal rooted at {a}/ has no .gitignore from its root down",
                                              {"op": "c18", "lines": lines, "origin_root": True, "d1": a, "d2": b, "f": c, "respect": True, "overlap": True}))
            elif r != z3.unsat:
                harness.append(f"solver unknown for the overlapping-roots query of {lines}")
    # ---- replay
    confirmed = ref_errors = checked = 0
    for form, lines, at_root, a, b, c, impl_says in jobs:
        rr = replay(lines, at_root, a, b, c)
        checked += 1
        if rr.get("hang"):
            findings.append(C.Finding("C18", "traversal-hangs", f"FileResolver.resolve does not return on a tree with .gitignore {lines} at {'root' if at_root else a} and file {a}/{b}/{c}",
                                      {"op": "c18", "lines": lines, "origin_root": at_root, "d1": a, "d2": b, "f": c, "respect": True}))
            break
        if form == "refcheck":
            if not rr["git_ignored"]:
                ref_errors += 1
                harness.append(f"reference error: my git formula says {a}/{b}/{c} is ignored by {lines} at {'root' if at_root else a}, real git says it is not")
            continue
        git_says = not impl_says
        if rr["git_ignored"] != git_says:
            ref_errors += 1
            harness.append(f"reference error: formula says git_ignored={git_says} for {a}/{b}/{c} under {lines} at {'root' if at_root else a}; real git says {rr['git_ignored']}")
            continue
        if rr["listed"] == (not rr["git_ignored"]):
            harness.append(f"model did not reproduce: {lines} {a}/{b}/{c}: git_ignored={rr['git_ignored']} listed={rr['listed']} (encoding of the traversal is wrong)")
            continue
        confirmed += 1
        where = "root" if at_root else "nested"
        direction = "listed-though-git-ignores" if rr["git_ignored"] else "hidden-though-git-keeps"
        def anchored(ln: str) -> bool:
            core = ln.lstrip("!")
            if core.startswith("/"):
                return True
            core = core.rstrip("/")
            while core.startswith("**/"):
                core = core[3:]
            return "/" in core

        if any(anchored(ln) for ln in lines):
            mech = "pattern-with-slash-vs-basename"   # only base names (and dir names + "/") are handed to the matcher
        elif any(ln.startswith("!") for ln in lines):
            mech = f"negation[{form}]@{where}"
        else:
            mech = f"{form}@{where}/{direction}"
        key = f"gitignore/{mech}"
        if len(samples) < 8:
            samples.append({"gitignore": lines, "at": where, "path": f"{a}/{b}/{c}", "git_ignored": rr["git_ignored"], "listed": rr["listed"]})
        findings.append(C.Finding("C18", key, f".gitignore {lines} at {where}: {a}/{b}/{c} is {'ignored' if rr['git_ignored'] else 'kept'} by git but {'listed' if rr['listed'] else 'not listed'} by flowmark",
                                  {"op": "c18", "lines": lines, "origin_root": at_root, "d1": a, "d2": b, "f": c, "respect": True}))
    # ---- --no-respect-gitignore end to end
    rr = replay(["*.md"], True, "a", "b", "a.md", respect=False)
    if rr.get("hang"):
        pass
    elif not rr["listed"]:
        findings.append(C.Finding("C18", "no-respect-gitignore/still-hidden", "with respect_gitignore=False a file ignored by .gitignore is still not listed",
                                  {"op": "c18", "lines": ["*.md"], "origin_root": True, "d1": "a", "d2": "b", "f": "a.md", "respect": False}))
    ev.add(
        programs=len(files) * 2,
        disagreements_checked=checked,
        samples_note="each sample: a .gitignore, where it sits, the path z3 produced, what git and flowmark said",
        templates=[list(t) for t in templates],
        templates_no_respect=[list(t) for t in templates_off],
        overlapping_roots={"calls_in_the_inner_walk_on_a_spec_above_its_root": [list(t) for t in ovl_templates], "queries": ovl_q, "sat": ovl_sat, "confirmed": ovl_confirmed},
        sibling_scope={"calls_on_a_nested_spec_about_a_sibling_branch": [list(t) for t in sib_templates], "queries": scope_q, "sat": scope_sat, "confirmed": scope_confirmed,
                       "note": "marker tree with a branch visited before and one visited after the directory holding the .gitignore; no such call = nothing to ask the solver"},
        queries=nq, unsat=nunsat, sat=nsat, refused=nrefused, confirmed_disagreements=confirmed, reference_errors=ref_errors,
        solver_s=round(solver_s, 2),
        bounds=f"path components over [abx]{{1,{MAXC}}}, file name [abx]{{1,{MAXC}}}.md, two directory levels; .gitignore of one or two lines from the grammar in gitignores(); placed at the traversal root or one level down",
        functions_encoded=["file_resolver.resolver.FileResolver._walk_directory / _is_dir_excluded / _get_gitignore_chain (by tracing their match_file calls)", "pathspec GitWildMatchPattern regexes (via re2smt)"],
        trusted_base=["z3", "pathspec's regex compilation is validated against `git check-ignore` on every replayed model and on one agreeing model per pattern"],
    )
    ev.samples = samples or [{"gitignore": files[0][1], "note": "no disagreement found; first pattern file shown", "templates": templates[:3]}]
    return C.finish(ev, findings, harness)


def replay_file(doc: dict[str, Any]) -> int:
    r = doc["replay"]
    rr = replay(r["lines"], r["origin_root"], r["d1"], r["d2"], r["f"], r.get("respect", True), gi_dir=r.get("gi_dir"), overlap=bool(r.get("overlap")))
    print(rr)
    if rr.get("hang"):
        return 1
    bad = rr["listed"] == rr["git_ignored"] if r.get("respect", True) else not rr["listed"]
    return 1 if bad else 0


if __name__ == "__main__":
    sys.exit(main())
