"""
C02 - formatting is idempotent: format(format(x)) == format(x), byte for byte.

Real code: reformat_text twice on every feasible path (pass 2 runs on pass 1's concrete output under the same
path condition, so z3 either proves the opposite branches of pass 2 infeasible or produces lengths/width that
re-break).  Symbolic: all word lengths, W in Z.  Enumerated: skeleton, mode, option set, plaintext.
"""
from __future__ import annotations

import sys
from typing import Any

from skeletons import docs as DOCS

MODULE = "checks.c02"

OPTS_ALL = [dict(cleanups=c, smartquotes=q, ellipses=e, list_spacing=ls) for c in (False, True) for q in (False, True) for e in (False, True) for ls in ("preserve", "loose", "tight")]
OPTS_COVER = [
    dict(cleanups=False, smartquotes=False, ellipses=False, list_spacing="preserve"),
    dict(cleanups=True, smartquotes=True, ellipses=True, list_spacing="loose"),
    dict(cleanups=True, smartquotes=False, ellipses=True, list_spacing="tight"),
    dict(cleanups=False, smartquotes=True, ellipses=False, list_spacing="tight"),
    dict(cleanups=True, smartquotes=True, ellipses=False, list_spacing="preserve"),
    dict(cleanups=False, smartquotes=False, ellipses=True, list_spacing="loose"),
]
OPTS_TWO = [OPTS_COVER[0], OPTS_COVER[1]]


def _oname(o: dict[str, Any]) -> str:
    return "".join("cqe"[i] if o[k] else "-" for i, k in enumerate(["cleanups", "smartquotes", "ellipses"])) + o["list_spacing"][0]


def cases(tier: str) -> list[dict[str, Any]]:
    th = tier == "thorough"
    cs: list[dict[str, Any]] = []
    light = list(DOCS.para_special(tier)) + list(DOCS.para_two_specials(tier)) + list(DOCS.para_breaks(tier))
    heavy = list(DOCS.blocks(tier)) + list(DOCS.typo(tier)) + list(DOCS.front(tier))
    for fam, optsets in ((light, OPTS_COVER[:3] if th else OPTS_TWO), (heavy, OPTS_ALL if th else OPTS_COVER)):
        for c in fam:
            for sem in (False, True):
                for o in optsets:
                    d = dict(c)
                    d.update(sem=sem, opts=o, key=f"{c['key']}/{'sem' if sem else 'fill'}/{_oname(o)}")
                    cs.append(d)
    for c in DOCS.plain(tier):
        d = dict(c)
        d.update(plaintext=True, key=c["key"])
        cs.append(d)
    cs.append(dict(key="twin/idem", fam="para", ctx="top", special="twin", plines=["qaa   qab qac qad"], sem=False, opts=OPTS_COVER[0], twin=True))
    return cs


def _unprefix(s: str) -> list[str]:
    import re

    return [re.sub(r"^[ >]+", "", x) for x in s.split("\n")]


def diff_kind(a: str, b: str) -> str:
    """normal form of how two outputs differ (container prefixes at line starts are ignored)"""
    import re

    la, lb = a.split("\n"), b.split("\n")
    if [x.rstrip() for x in la] == [x.rstrip() for x in lb]:
        return "trailing-space"
    if [x.rstrip() for x in la if x.strip(" >")] == [x.rstrip() for x in lb if x.strip(" >")]:
        return "blank-lines"
    if [re.sub(" +", " ", x) for x in la] == [re.sub(" +", " ", x) for x in lb]:
        return "space-runs"
    wa, wb = " ".join(_unprefix(a)).split(), " ".join(_unprefix(b)).split()
    if wa == wb:
        return "rebreak"
    if [w.replace("\\", "") for w in wa] == [w.replace("\\", "") for w in wb]:
        return "escape"
    return "content"


def run(env: Any, case: dict[str, Any]) -> Any:
    from flowmark import reformat_text
    from flowmark.formats.flowmark_markdown import ListSpacing

    W = env.int("W")
    doc = env.text(DOCS.doc_of(case))
    if case.get("plaintext"):
        kw: dict[str, Any] = dict(plaintext=True)
    else:
        o = case["opts"]
        kw = dict(semantic=case["sem"], cleanups=o["cleanups"], smartquotes=o["smartquotes"], ellipses=o["ellipses"], list_spacing=ListSpacing(o["list_spacing"]))
    out1 = reformat_text(doc, width=W, **kw)
    if case.get("twin"):
        env.prove(out1 == doc, "idempotent:twin", "twin: claims pass 1 changes nothing")
        return [out1]
    out2 = reformat_text(out1, width=W, **kw)
    if out1 != out2:
        env.prove(False, "idempotent:" + diff_kind(out1, out2), {"pass1": out1, "pass2": out2})
    else:
        env.prove(True, "idempotent")
    return [out1, out2]


def key_fn(case: dict[str, Any], label: str, item: dict[str, Any], conc: dict[str, Any]) -> str:
    mode = "plaintext" if case.get("plaintext") else ""
    cls = DOCS.finding_class(case)
    if cls in ("first-word-alone", "sentence-initial-marker"):
        label = "idempotent"  # pass 2 re-reads the block the lone word turned into
    return f"{cls}{mode}/{label}"


def what_fn(case: dict[str, Any], label: str, item: dict[str, Any], conc: dict[str, Any]) -> str:
    return f"{label} | case {case['key']} model={item['model']} passes={conc.get('out')!r}"


def main() -> int:
    from checks import common as C
    from engines import driver as D

    ev = C.Evidence("C02", "model_checking")
    cs = cases(C.tier())
    findings, harness = D.run_check("C02", MODULE, cs, ev, key_fn, sample_paths=2 if C.tier() == "quick" else 4, max_paths=20000, what_fn=what_fn)
    ev.add(
        rule="case = (skeleton, mode, option set | plaintext); state = feasible joint path of pass 1 and pass 2; obligation: pass2 == pass1 byte for byte",
        functions_encoded=["reformat_api.reformat_text (Markdown pipeline and plaintext fill_text path), executed twice per path"],
        bounds="skeleton families of skeletons/docs.py incl. typography, frontmatter, plaintext; option sets: %s; lengths and W unbounded" % ("all 24 on block/typo/front, 3 on paragraph families" if C.tier() == "thorough" else "6-set covering array on block/typo/front, 2 on paragraph families"),
        sources=C.source_hashes(["src/flowmark/linewrapping/markdown_filling.py", "src/flowmark/formats/flowmark_markdown.py", "src/flowmark/linewrapping/line_wrappers.py",
                                 "src/flowmark/linewrapping/tag_handling.py", "src/flowmark/formats/frontmatter.py", "src/flowmark/linewrapping/text_filling.py"]),
    )
    ev.assumptions += ["A1/A2 (validated per sampled path by replay on unpatched code)"]
    return C.finish(ev, findings, harness)


if __name__ == "__main__":
    sys.exit(main())
