"""
C07 - YAML frontmatter is passed through exactly and does not influence the body.

E-INT (this file): concrete frontmatter blocks (quotes, dots, long lines, lists, exotic separators, CRLF,
leading blank lines, padded delimiter lines) x body skeletons x option sets; symbolic body word lengths and W.
Obligations per path:  format(fm + body) == fm' + format(body)  with fm' = the block with only CRLF -> LF;
an unclosed opening '---' is returned unchanged apart from a final newline, however often it is formatted.
Precondition (documented): the body's first non-blank line is not '---'.
E-RE lemma (checks/c07_re.py): the real split_frontmatter, lifted from its current source, on K symbolic lines against
a z3 reference reading of "block delimited by --- lines", all strings within the stated alphabet and bounds.
E-CH kernel on split_frontmatter with symbolic text: harness/ch_kernels.py, run from main().
"""
from __future__ import annotations

import sys
from typing import Any

MODULE = "checks.c07"

FMS: list[tuple[str, str]] = [
    ("simple", "---\ntitle: x\n---\n"),
    ("quotes-dots", "---\ntitle: \"It's... a 'test'\"\ndesc: 'say \"hi\"...'\n---\n"),
    ("long-line", "---\ndescription: " + "word " * 40 + "end\n---\n"),
    ("list-indent", "---\ntags:\n  - a\n  -   b\nnested:\n    k:   v\n---\n"),
    ("formfeed", "---\na: 1\x0cb\n---\n"),
    ("unicode-seps", "---\na: x\u2028y\u2029z\nb: p\x85q\x1cr\x0bs\n---\n"),
    ("crlf", "---\r\na: 1\r\nb: \"x\"\r\n---\r\n"),
    ("padded-delims", "---  \na: 1\n--- \n"),
    ("tab-trailing-ws", "---\na:\t1   \nb: 2\t\n---\n"),
    ("blank-lines-inside", "---\na: 1\n\n\nb: 2\n---\n"),
    ("md-inside", "---\n# not a heading\n- not a list **bold** `code` ... \"q\"\n---\n"),
    ("dashes-inside", "---\na: ---x\nb: --\n---\n"),
    ("lone-cr", "---\na: x\ry\nb: z\r\n---\n"),
    ("empty-block", "---\n---\n"),
    ("blank-block", "---\n\n---\n"),
    ("one-char", "---\na\n---\n"),
    ("long-dashes-inside", "---\na: |\n-----------\nb: 1\n---\n"),
    ("doc-marker-inside", "---\na: 1\n--- !extra\nb: 2\n---\n"),
    ("ws-only-line-inside", "---\na: 1\n   \n\t\nb: 2\n---\n"),
    ("indented-keys", "---\n  a: 1\n    b: 2\n---\n"),
]
BODIES: list[tuple[str, str]] = [
    ("para", "qaa qab qac qad qae\n"),
    ("heading-list", "# qaa qab\n\n- qac qad\n- qae\n"),
    ("typo", '"qaa" qab\'s qac... qad\n'),
    ("no-gap", None),  # body directly after the closing delimiter (no blank line) - filled in below
    ("bold-heading", "# **qaa**\n\nqab qac qad.\nqae qaf.\n"),
    ("indented-body-4", "    qaa qab\n\n    qac qad qae\n"),
    ("indented-body-2", "  - qaa qab\n  - qac\n\n  qad qae\n"),
]
OPTS = [
    dict(semantic=False, cleanups=False, smartquotes=False, ellipses=False),
    dict(semantic=True, cleanups=True, smartquotes=True, ellipses=True),
]


def cases(tier: str) -> list[dict[str, Any]]:
    th = tier == "thorough"
    cs: list[dict[str, Any]] = []
    for fname, fm in FMS:
        for bname, body in BODIES:
            gap = "\n"
            if body is None:
                body, gap = "qaa qab qac\n- qad\n", ""
            for lead in (("", "\n\n") if th else ("",)):
                for oi, o in enumerate(OPTS):
                    cs.append(dict(key=f"fm/{fname}/{bname}/lead={len(lead)}/o{oi}", kind="fm", fname=fname, fm=fm, gap=gap, body=body, lead=lead, opts=o))
    for name, text in [
        ("unclosed", "---\ntitle: qaa qab qac\n\nqad   qae \"qaf\"... qag\n"),
        ("unclosed-nonl", "---\ntitle: qaa\n# **qab**   qac"),
        ("unclosed-crlf", "---\r\ntitle: qaa\r\nqab   qac\r\n"),
        ("unclosed-only-delim", "---\n"),
        ("unclosed-trailing-blank", "---\na: qaa\n\n\n"),
    ]:
        for oi, o in enumerate(OPTS):
            cs.append(dict(key=f"unclosed/{name}/o{oi}", kind="unclosed", fname=name, text=text, opts=o))
    # the same through the file entry point: bytes on disk in, bytes on disk out
    for fname in ("simple", "crlf", "lone-cr", "formfeed", "unicode-seps", "tab-trailing-ws"):
        cs.append(dict(key=f"file/{fname}", kind="file", fname=fname, fm=dict(FMS)[fname], body="qaa qab   qac\n", opts=OPTS[0]))
    cs.append(dict(key="twin/fm", kind="fm", fname="twin", fm=FMS[0][1], gap="\n", body="qaa   qab\n", lead="", opts=OPTS[0], twin=True))
    return cs


def run(env: Any, case: dict[str, Any]) -> Any:
    from flowmark import reformat_text

    W = env.int("W")
    o = case["opts"]
    if case["kind"] == "fm":
        fm, body = case["fm"], env.text(case["body"])
        doc = case["lead"] + fm + case["gap"] + body
        out = reformat_text(doc, width=W, **o)
        want_fm = fm.replace("\r\n", "\n")
        alone = reformat_text(body, width=W, **o)
        if case.get("twin"):
            env.prove(out == doc, "frontmatter:twin", "twin: claims the whole document is returned unchanged")
            return out
        env.prove(out.startswith(want_fm), "frontmatter:exact", {"want_prefix": want_fm, "out": out[: len(want_fm) + 40]})
        env.prove(out == want_fm + alone, "frontmatter:body-independent", {"out": out, "fm+format(body)": want_fm + alone})
        return out
    if case["kind"] == "file":
        import shutil
        import tempfile
        from pathlib import Path

        from flowmark.reformat_api import reformat_file

        fm, body = case["fm"], env.text(case["body"])
        want = fm.replace("\r\n", "\n") + reformat_text(body, width=W, **o)
        d = Path(tempfile.mkdtemp(prefix="c07_"))
        try:
            p = d / "doc.md"
            p.write_bytes((fm + "\n" + body).encode("utf-8"))
            reformat_file(p, None, width=W, inplace=True, nobackup=True, **o)
            got = p.read_bytes().decode("utf-8")
        finally:
            shutil.rmtree(d, ignore_errors=True)
        env.prove(got.startswith(fm.replace("\r\n", "\n")), "frontmatter:exact-through-file", {"want_prefix": fm.replace("\r\n", "\n"), "got": got[: len(fm) + 20]})
        return got
    if case["kind"] == "unclosed":
        text = env.text(case["text"])
        out1 = reformat_text(text, width=W, **o)
        out2 = reformat_text(out1, width=W, **o)
        out3 = reformat_text(out2, width=W, **o)
        want = text if text.endswith("\n") else text + "\n"
        env.prove(out1 == want, "frontmatter:unclosed-unchanged", {"want": want, "out": out1})
        env.prove(out2 == out1 and out3 == out1, "frontmatter:unclosed-stable", {"out1": out1, "out2": out2, "out3": out3})
        return [out1, out2]
    raise ValueError(case["kind"])


def key_fn(case: dict[str, Any], label: str, item: dict[str, Any], conc: dict[str, Any]) -> str:
    return f"{case['kind']}[{case['fname']}]/{label}"


def what_fn(case: dict[str, Any], label: str, item: dict[str, Any], conc: dict[str, Any]) -> str:
    f = [x for x in conc.get("failed", []) if x["label"] == label]
    return f"{label} | case {case['key']} model={item['model']} detail={str(f[0]['detail'] if f else '')[:500]!r}"


def main() -> int:
    from checks import common as C
    from engines import driver as D

    ev = C.Evidence("C07", "model_checking")
    cs = cases(C.tier())
    findings, harness = D.run_check("C07", MODULE, cs, ev, key_fn, sample_paths=2 if C.tier() == "quick" else 4, what_fn=what_fn)
    # E-RE lemma on split_frontmatter over symbolic lines (in-process: run_check has finished, no fork pool is alive)
    try:
        from checks import c07_re

        f3, h3, lem = c07_re.lemmas(ev)
        findings += f3
        harness += h3
    except Exception as e:  # noqa: BLE001
        lem = {"status": f"lemma failed: {type(e).__name__}: {e}"[:300]}
        harness.append(f"C07-RE: {lem['status']}")
    kern = {}
    try:
        from checks import kernels

        f2, h2, kern = kernels.run_for("C07", ev)
        findings += f2
        harness += h2
    except ImportError:
        kern = {"status": "E-CH kernels not built in this revision"}
    ev.add(
        rule="case = (frontmatter block, body skeleton, option set) or unclosed document; state = joint feasible path of format(fm+body) and format(body); obligations: exact block, body independent, unclosed unchanged and stable over 3 runs",
        functions_encoded=["reformat_api.reformat_text -> markdown_filling.fill_markdown -> frontmatter.split_frontmatter (whole pipeline)"],
        bounds="12 frontmatter blocks (incl. \\x0b \\x0c \\x1c \\x85 U+2028, CRLF, padded delimiters) x 5 bodies x 2 option sets; body lengths and W unbounded",
        kernels=kern,
        re_lemma=lem,
        sources=C.source_hashes(["src/flowmark/formats/frontmatter.py", "src/flowmark/linewrapping/markdown_filling.py"]),
    )
    ev.assumptions += ["A1/A2 (validated by replay)", "precondition: the body's first non-blank line is not '---'"]
    return C.finish(ev, findings, harness)


if __name__ == "__main__":
    sys.exit(main())
