"""
C14 - in-place formatting never leaves a damaged or half-written file.

The real reformat_file / reformat_files / cli.main and the real strif.atomic_output_file / move_to_backup run on
a real temporary directory, with every file-system primitive they can reach (Path.read_text/write_text/replace/
rename/mkdir/exists/is_dir/is_symlink/unlink, os.replace/rename/remove/path.exists/path.isdir, shutil.move/rmtree,
open()/io.open for writing) wrapped by a counting fault injector.  Symbolic (z3): the index `at` of the faulted
operation (unbounded Int), the fault mode, the torn-write class, and the switches nobackup / stale-backup.
  crash-before(k) : the process dies before the k-th FS operation
  crash-after(k)  : ... after it (a dying write first leaves a prefix: empty / half / complete)
  fail(k)         : the k-th operation raises OSError (ENOSPC / EACCES) instead of happening; a failing write may
                    leave a prefix
Obligation in every reachable post-state: target in {old,new} (with backups: or absent with old in .orig; new
implies old in .orig); the input is untouched unless in place; a failed read/decode modifies nothing; in a
multi-file run every file is old or new.  With <= ~15 operations per file this is little more than enumeration
(level: fault_enumeration); the solver picks the schedule and proves the index space is covered.
"""
from __future__ import annotations

import builtins
import contextlib
import errno
import io
import os
import shutil
import sys
import tempfile
from pathlib import Path
from typing import Any

MODULE = "checks.c14"

OLD = "# Title\n\nSome   text that will be\nreflowed by the formatter. Another sentence here.\n\n- a\n- b\n"
OLD2 = "Second    file with\nodd   spacing. And two sentences.\n"
BAD = b"\xff\xfe not utf-8 \xc3\x28\n"


class Crash(BaseException):
    pass


class Injector:
    """Counts FS operations under `root` and injects one fault."""

    def __init__(self, env: Any, root: Path, mode: int, at: Any, torn: int, errno_kind: int):
        self.env, self.root, self.mode, self.at, self.torn, self.errno_kind = env, str(root), mode, at, torn, errno_kind
        self.k = 0
        self.log: list[str] = []
        self.fired = False

    def _mine(self, p: Any) -> bool:
        try:
            return str(os.fspath(p)).startswith(self.root) or not os.path.isabs(str(os.fspath(p)))
        except TypeError:
            return False

    def op(self, name: str, p: Any, do: Any, partial: Any = None) -> Any:
        if not self._mine(p):
            return do()
        k = self.k
        self.k += 1
        self.log.append(f"{k}:{name}:{os.path.basename(str(p))}")
        hit = (not self.fired) and self.mode != 0 and bool(self.at == k)
        if not hit:
            return do()
        self.fired = True
        self.log[-1] += f" <- fault mode {self.mode}"
        if self.mode == 1:  # crash before
            raise Crash(f"before op {k} {name}")
        if self.mode == 2:  # crash after (a write may be torn)
            if partial is not None:
                partial(self.torn)
            else:
                do()
            raise Crash(f"after op {k} {name}")
        # mode 3: the operation fails
        if partial is not None:
            partial(0 if self.torn == 2 else self.torn)  # a failed write never completes
        raise OSError(errno.ENOSPC if self.errno_kind == 0 else errno.EACCES, f"injected failure at op {k} {name}")


@contextlib.contextmanager
def injected(inj: Injector):
    P = Path
    saved = {
        "read_text": P.read_text, "write_text": P.write_text, "replace": P.replace, "rename": P.rename, "mkdir": P.mkdir,
        "exists": P.exists, "is_dir": P.is_dir, "is_symlink": P.is_symlink, "unlink": P.unlink, "write_bytes": P.write_bytes,
    }
    o_replace, o_rename, o_remove, o_exists, o_isdir = os.replace, os.rename, os.remove, os.path.exists, os.path.isdir
    s_move, s_rmtree = shutil.move, shutil.rmtree
    b_open, i_open = builtins.open, io.open

    def cut(data: str, cls: int) -> str:
        return "" if cls == 0 else data[: len(data) // 2] if cls == 1 else data

    def w_write_text(self: Path, data: str, *a: Any, **kw: Any) -> Any:
        def partial(cls: int) -> None:
            with b_open(self, "w") as f:  # opening truncates, as the real call would
                f.write(cut(data, cls))
        return inj.op("write_text", self, lambda: saved["write_text"](self, data, *a, **kw), partial)

    def w_write_bytes(self: Path, data: bytes) -> Any:
        def partial(cls: int) -> None:
            with b_open(self, "wb") as f:
                f.write(data[: 0 if cls == 0 else len(data) // 2 if cls == 1 else len(data)])
        return inj.op("write_bytes", self, lambda: saved["write_bytes"](self, data), partial)

    class TornFile:
        """a file opened for writing by plain open(): truncation happened at open; each write is an operation"""

        def __init__(self, f: Any, path: Any):
            self.f, self.path = f, path

        def write(self, data: Any) -> Any:
            def partial(cls: int) -> None:
                self.f.write(data[: 0 if cls == 0 else len(data) // 2 if cls == 1 else len(data)])
                self.f.flush()
            return inj.op("write", self.path, lambda: self.f.write(data), partial)

        def __enter__(self) -> "TornFile":
            return self

        def __exit__(self, *a: Any) -> None:
            self.f.close()

        def __getattr__(self, n: str) -> Any:
            return getattr(self.f, n)

    def w_open(file: Any, mode: str = "r", *a: Any, **kw: Any) -> Any:
        if isinstance(file, (str, os.PathLike)) and inj._mine(file) and any(c in mode for c in "wax+"):
            f = inj.op(f"open({mode})", file, lambda: b_open(file, mode, *a, **kw))
            return TornFile(f, file)
        if isinstance(file, (str, os.PathLike)) and inj._mine(file) and not getattr(inj, "in_read_text", False):
            # a plain open() for reading is an operation too (the input may be read this way instead of Path.read_text)
            return inj.op(f"open({mode})", file, lambda: b_open(file, mode, *a, **kw))
        return b_open(file, mode, *a, **kw)

    def wrap_path(name: str) -> Any:
        real = saved[name]

        def w(self: Path, *a: Any, **kw: Any) -> Any:
            def do() -> Any:
                inj.in_read_text = name == "read_text"   # its inner io.open is the same operation, not a second one
                try:
                    return real(self, *a, **kw)
                finally:
                    inj.in_read_text = False
            return inj.op(name, self, do)
        return w

    try:
        for n in ("read_text", "replace", "rename", "mkdir", "exists", "is_dir", "is_symlink", "unlink"):
            setattr(P, n, wrap_path(n))
        os.replace = lambda s, d, **kw: inj.op("os.replace", s, lambda: o_replace(s, d, **kw))
        os.rename = lambda s, d, **kw: inj.op("os.rename", s, lambda: o_rename(s, d, **kw))
        os.remove = lambda p, **kw: inj.op("os.remove", p, lambda: o_remove(p, **kw))
        os.path.exists = lambda p: inj.op("os.path.exists", p, lambda: o_exists(p))
        os.path.isdir = lambda p: inj.op("os.path.isdir", p, lambda: o_isdir(p))
        shutil.move = lambda s, d, *a, **kw: inj.op("shutil.move", s, lambda: s_move(s, d, *a, **kw))
        shutil.rmtree = lambda p, *a, **kw: inj.op("shutil.rmtree", p, lambda: s_rmtree(p, *a, **kw))
        builtins.open = w_open
        io.open = w_open
        yield
    finally:
        for n, f in saved.items():
            setattr(P, n, f)
        os.replace, os.rename, os.remove, os.path.exists, os.path.isdir = o_replace, o_rename, o_remove, o_exists, o_isdir
        shutil.move, shutil.rmtree = s_move, s_rmtree
        builtins.open, io.open = b_open, i_open


def cases(tier: str) -> list[dict[str, Any]]:
    cs = []
    for entry in ["api_inplace", "api_output", "api_output_existing", "cli_inplace", "cli_two_inplace", "cli_stdin_o", "cli_two_bad_second", "api_bad", "api_inplace_link", "cli_inplace_link"]:
        for fm in range(4):  # the fault mode is fixed per case only to spread the work over the cores
            cs.append(dict(key=f"fault/{entry}/mode{fm}", kind="fault", entry=entry, fmode=fm, cost=(2 if "two" in entry else 1) * (3 if fm >= 2 else 1)))
    cs.append(dict(key="twin/fault", kind="fault", entry="api_inplace", twin=True))
    return cs


def _read(p: Path) -> str | None:
    try:
        return p.read_bytes().decode("utf-8", "replace")
    except FileNotFoundError:
        return None


def run(env: Any, case: dict[str, Any]) -> Any:
    import flowmark.cli as cli
    import flowmark.reformat_api as ra

    entry = case["entry"]
    mode = 0
    msel = env.int("fault_mode", 0, 3)
    if "fmode" in case:
        env.assume(msel == case["fmode"])
    for i in range(4):
        if msel == i:
            mode = i
    at = env.int("at")
    torn = 0
    tsel = env.int("torn", 0, 2)
    for i in range(3):
        if tsel == i:
            torn = i
    ek = 1 if bool(env.bool("eacces")) else 0
    nobackup = bool(env.bool("nobackup"))
    stale = bool(env.bool("stale_backup"))
    new, new2 = ra.reformat_text(OLD, semantic=True), ra.reformat_text(OLD2, semantic=True)
    root = Path(tempfile.mkdtemp(prefix="c14_"))
    old_cwd, old_in = os.getcwd(), sys.stdin
    label = f"atomic:{entry}"
    try:
        os.chdir(root)
        a, b, o = root / "a.md", root / "b.md", root / "out" / "o.md"
        a.write_text(OLD)
        b.write_text(OLD2)
        if entry in ("cli_two_bad_second",):
            b.write_bytes(BAD)
        if entry == "api_bad":
            a.write_bytes(BAD)
        real = root / "real" / "r.md"
        if entry.endswith("_link"):
            # the path given is a symbolic link to the file
            real.parent.mkdir()
            a.unlink()
            real.write_text(OLD)
            os.symlink(real, a)
        if stale:
            (root / "a.md.orig").write_text("stale backup\n")
        if entry == "api_output_existing":
            o.parent.mkdir()
            o.write_text("previous output\n")
        sys.stdin = io.StringIO(OLD)
        inj = Injector(env, root, mode, at, torn, ek)
        outcome = "done"
        sink = io.StringIO()
        with contextlib.redirect_stdout(sink), contextlib.redirect_stderr(io.StringIO()):
            try:
                with injected(inj):
                    if entry in ("api_inplace", "api_inplace_link"):
                        ra.reformat_file(a, None, inplace=True, nobackup=nobackup, semantic=True)
                    elif entry in ("api_output", "api_output_existing"):
                        ra.reformat_file(a, o, semantic=True)
                    elif entry == "api_bad":
                        ra.reformat_file(a, None, inplace=True, nobackup=nobackup, semantic=True)
                    elif entry in ("cli_inplace", "cli_inplace_link"):
                        outcome = f"exit{cli.main(['--inplace', '--semantic', 'a.md'] + (['--nobackup'] if nobackup else []))}"
                    elif entry in ("cli_two_inplace", "cli_two_bad_second"):
                        outcome = f"exit{cli.main(['--inplace', '--semantic', 'a.md', 'b.md'] + (['--nobackup'] if nobackup else []))}"
                    elif entry == "cli_stdin_o":
                        outcome = f"exit{cli.main(['--semantic', '-o', 'out/o.md', '-'])}"
                    else:
                        raise ValueError(entry)
            except Crash as c:
                outcome = f"crash:{c}"
            except Exception as e:  # noqa: BLE001
                outcome = f"raised:{type(e).__name__}"
        A, B, O, BK, BK2 = _read(a), _read(b), _read(o), _read(root / "a.md.orig"), _read(root / "b.md.orig")
        state = {"outcome": outcome, "ops": inj.log, "a": A, "b": B, "o": O, "a.orig": BK, "b.orig": BK2}
        if case.get("twin"):
            env.prove(A == OLD, label, "twin: claims the file is never changed")
            return outcome.split(":")[0]
        inplace = "inplace" in entry or entry in ("cli_two_bad_second", "api_bad")
        old_bk = "stale backup\n" if stale else None

        def file_ok(cur: str | None, old: str, nw: str, bk: str | None, bk_before: str | None) -> bool:
            if nobackup or not inplace:
                return cur in (old, nw)
            if cur == old:
                return True
            if cur == nw:
                return bk == old
            return cur is None and bk == old

        if entry.endswith("_link"):
            R = _read(real)
            state["link-target"] = R
            env.prove(file_ok(A, OLD, new, BK, old_bk), label, state)
            env.prove(R in (OLD, new), label + ":link-target-whole", state)
            env.prove(B == OLD2, label + ":other-file", state)
        elif entry in ("api_inplace", "cli_inplace"):
            env.prove(file_ok(A, OLD, new, BK, old_bk), label, state)
            env.prove(B == OLD2, label + ":other-file", state)
            if inj.fired is False and mode == 0:
                env.prove(A == new, label + ":completes", state)
        elif entry in ("cli_two_inplace",):
            env.prove(file_ok(A, OLD, new, BK, old_bk), label, state)
            env.prove(file_ok(B, OLD2, new2, BK2, None), label, state)
        elif entry == "cli_two_bad_second":
            bad = BAD.decode("utf-8", "replace")
            env.prove(file_ok(A, OLD, new, BK, old_bk), label, state)
            env.prove(B == bad and BK2 is None, label + ":unreadable-untouched", state)
            if mode == 0:
                env.prove(A == new and outcome != "exit0", label + ":first-file-formatted-error-reported", state)
        elif entry == "api_bad":
            bad = BAD.decode("utf-8", "replace")
            env.prove(A == bad and BK == old_bk and outcome != "done", label + ":unreadable-untouched", state)
        elif entry in ("api_output", "api_output_existing", "cli_stdin_o"):
            prev = "previous output\n" if entry == "api_output_existing" else None
            env.prove(A == OLD and BK == old_bk, label + ":input-untouched", state)
            env.prove(O in (prev, new), label, state)
            if mode == 0:
                env.prove(O == new, label + ":completes", state)
        return outcome.split(":")[0]
    finally:
        sys.stdin = old_in
        os.chdir(old_cwd)
        shutil.rmtree(root, ignore_errors=True)


def key_fn(case: dict[str, Any], label: str, item: dict[str, Any], conc: dict[str, Any]) -> str:
    return label


def what_fn(case: dict[str, Any], label: str, item: dict[str, Any], conc: dict[str, Any]) -> str:
    f = [x for x in conc.get("failed", []) if x["label"] == label]
    d = f[0]["detail"] if f else {}
    return f"{label} model={item['model']} outcome={d.get('outcome') if isinstance(d, dict) else d} ops={d.get('ops') if isinstance(d, dict) else ''}"


def main() -> int:
    from checks import common as C
    from engines import driver as D

    ev = C.Evidence("C14", "fault_enumeration")
    cs = cases(C.tier())
    findings, harness = D.run_check("C14", MODULE, cs, ev, key_fn, sample_paths=40, max_paths=20000, what_fn=what_fn)
    cov = ev.coverage
    ev.add(
        evaluations=cov.get("states", 0),
        distinct_nontrivial=cov.get("states", 0) - len(cs),
        rule="one evaluation = one feasible path = one (entry point, fault mode, faulted operation index, torn class, errno, nobackup, stale backup) schedule, chosen by z3 over an unbounded "
        "index; non-trivial = a fault actually fired (all paths but the fault-free one per switch combination); distinct by construction (paths partition the index space: completeness query unsat)",
        functions_encoded=["reformat_api.reformat_file", "reformat_api.reformat_files", "cli.main", "strif.atomic_output_file", "strif.move_to_backup"],
        bounds="one or two files; one fault per run; torn write abstracted to {empty, half, complete} (exact for an equality-only assertion)",
        stub_contract=["Path.replace/os.replace/rename are atomic", "a write is not atomic: a crash or failure may leave any prefix", "mkdir is atomic", "open(..., 'w') truncates at open"],
        exhaustive=True,
        sources=C.source_hashes(["src/flowmark/reformat_api.py", "src/flowmark/cli.py"]),
    )
    return C.finish(ev, findings, harness)


if __name__ == "__main__":
    sys.exit(main())
