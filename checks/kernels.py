"""
E-CH runner: CrossHair 0.0.110 on the harness functions of harness/ch_kernels.py (symbolic str through the real
kernels).  One OS process per condition, all in parallel; only "Confirmed over all paths" counts as discharged;
a counterexample is evaluated concretely in a fresh interpreter on the real code and reported only if it
reproduces; "Not confirmed" / non-reproducing counterexamples are recorded as inconclusive (never a pass, never an
alarm).  Each kernel has a reachability twin: the same body with the postcondition negated must be refuted.
"""
from __future__ import annotations

import ast
import json
import os
import re
import subprocess
import sys
import time
from concurrent.futures import ThreadPoolExecutor
from pathlib import Path
from typing import Any

HERE = Path(__file__).resolve().parent.parent
HARNESS = HERE / "harness" / "ch_kernels.py"

# kernel -> (properties served, per-condition timeout quick, thorough, what it claims)
KERNELS: dict[str, tuple[list[str], int, int, str]] = {
    "k_split_frontmatter": (["C07"], 100, 400, "split_frontmatter returns the block exactly (CRLF->LF only) and the remainder, symbolic block text <=3 chars over a-:space CR LF FF"),
    "k_render_code": (["C04", "C12"], 100, 400, "_render_code under 3 container prefixes, both fence chars, fence_len 3..4: a reference fenced-block reader recovers the two symbolic lines (<=3 and <=2 chars over ` a space ~); no trailing space on blank lines"),
    "k_render_code_span": (["C04", "C01"], 60, 300, "render_code_span: the CommonMark code-span reader recovers the symbolic content (<=5 chars over ` a space)"),
    "k_title": (["C04", "C01"], 60, 300, "_normalize_title_quotes: a double-quoted-title reader recovers the symbolic title (<=4 chars over \" \\ a ')"),
    "k_smart_quotes": (["C08"], 100, 400, "smart_quotes: same length, only quote characters change, into the matching curly quote (<=4 chars over a space ' \" .)"),
    "k_smart_quotes_tag": (["C08", "C04"], 60, 200, "smart_quotes never alters a template tag body (<=3 symbolic chars)"),
    "k_ellipses_idempotent": (["C09"], 100, 400, "ellipses(ellipses(s)) == ellipses(s) (<=4 chars over a . space \")"),
    "k_ellipses_only_dots": (["C09"], 100, 400, "ellipses(s) equals s up to the ellipsis character and spaces next to a three-dot run"),
}


def _line_of(fn: str) -> int:
    for i, ln in enumerate(HARNESS.read_text().split("\n"), 1):
        if ln.startswith(f"def {fn}("):
            return i + 2
    raise KeyError(fn)


def _run_one(fn: str, timeout: int) -> dict[str, Any]:
    t0 = time.time()
    cmd = [sys.executable, "-m", "crosshair", "check", "--report_all", "--per_condition_timeout", str(timeout), f"{HARNESS}:{_line_of(fn)}"]
    env = dict(os.environ, PYTHONPATH=str(HERE) + os.pathsep + os.environ.get("PYTHONPATH", ""))
    try:
        r = subprocess.run(cmd, capture_output=True, text=True, timeout=timeout * 2 + 60, env=env, cwd=str(HERE))
        out = r.stdout + r.stderr
    except subprocess.TimeoutExpired:
        return {"kernel": fn, "status": "timeout", "wall_s": round(time.time() - t0, 1)}
    res: dict[str, Any] = {"kernel": fn, "wall_s": round(time.time() - t0, 1), "raw": out[-400:]}
    if "Confirmed over all paths" in out:
        res["status"] = "confirmed"
    elif "error:" in out:
        m = re.search(r"when calling (\w+)\((.*)\) \(which", out, re.S)
        res["status"] = "counterexample"
        res["call"] = m.group(2) if m else None
    elif "Not confirmed" in out:
        res["status"] = "not-confirmed"
    elif "Unable to meet precondition" in out:
        res["status"] = "unable-to-meet-precondition"
    else:
        res["status"] = "unknown"
    return res


def _replay(fn: str, call: str) -> dict[str, Any]:
    """evaluate the harness function concretely on the counterexample arguments, in a fresh interpreter"""
    code = f"import sys, json\nsys.path.insert(0, {str(HERE)!r})\nfrom harness import ch_kernels as K\ntry:\n    r = K.{fn}({call})\n    print(json.dumps({{'ret': bool(r)}}))\nexcept Exception as e:\n    print(json.dumps({{'exc': type(e).__name__ + ': ' + str(e)}}))\n"
    env = dict(os.environ)
    r = subprocess.run([sys.executable, "-c", code], capture_output=True, text=True, env=env)
    try:
        return json.loads(r.stdout.strip().split("\n")[-1])
    except Exception:  # noqa: BLE001
        return {"error": (r.stdout + r.stderr)[-300:]}


def run_for(prop: str, ev: Any) -> tuple[list[Any], list[str], dict[str, Any]]:
    from checks import common as C

    th = C.tier() == "thorough"
    if not th:
        return [], [], {"status": "E-CH kernels run in the thorough tier only (CrossHair needs 1-7 minutes per kernel)", "kernels": [k for k, v in KERNELS.items() if prop in v[0]]}
    mine = [k for k, v in KERNELS.items() if prop in v[0]]
    findings: list[Any] = []
    harness: list[str] = []
    with ThreadPoolExecutor(max_workers=max(1, len(mine))) as ex:
        results = list(ex.map(lambda k: _run_one(k, KERNELS[k][2] if th else KERNELS[k][1]), mine))
    info: dict[str, Any] = {"engine": "crosshair 0.0.110", "kernels": {}}
    for r in results:
        k = r["kernel"]
        entry = {"claim": KERNELS[k][3], "status": r["status"], "wall_s": r["wall_s"], "per_condition_timeout_s": KERNELS[k][2] if th else KERNELS[k][1]}
        if r["status"] == "counterexample" and r.get("call") is not None:
            rr = _replay(k, r["call"])
            entry["counterexample"] = r["call"][:200]
            entry["replay"] = rr
            if rr.get("ret") is False or "exc" in rr:
                findings.append(C.Finding(prop, f"kernel[{k}]", f"{KERNELS[k][3]} - refuted by {k}({r['call'][:160]}) -> {rr}", {"op": "kernel", "kernel": k, "call": r["call"]}))
                entry["status"] = "counterexample-reproduced"
            else:
                entry["status"] = "counterexample-not-reproduced (engine artefact, inconclusive)"
        info["kernels"][k] = entry
    info["discharged"] = sum(1 for e in info["kernels"].values() if e["status"] == "confirmed")
    info["inconclusive"] = sum(1 for e in info["kernels"].values() if e["status"] not in ("confirmed", "counterexample-reproduced"))
    return findings, harness, info


if __name__ == "__main__":
    class _E:
        pass
    for p in sys.argv[1:] or ["C04", "C07", "C08", "C09"]:
        f, h, i = run_for(p, _E())
        print(p, json.dumps(i, indent=1)[:3000])
        for x in f:
            print("FINDING", x.key, x.what[:300])
