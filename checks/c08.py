"""
C08 - smart quotes only swap individual quote characters, and only in prose.
C09 - ellipsis conversion touches only three-dot runs in prose.   (checks/c09.py reuses this module)

Document differential (E-INT): format(d, option=on) vs format(d, option=off) on joint paths, every other option
setting enumerated, all word lengths and W symbolic.
 C08: same length, same line breaks, differs only at positions holding ' or " which become the matching curly
      quote; positions inside literal spans (code, tags, comments, HTML, URLs, destinations, titles) and
      backslash-escaped quotes never change; quotes pair within one paragraph only.
 C09: same document shape; text equal after mapping the ellipsis back to '...' and ignoring the spaces directly
      around it (up to line wrapping); literal spans identical.
Raw-function kernels (smart_quotes / ellipses on symbolic strings) are E-CH, run from main().
"""
from __future__ import annotations

import re
import sys
from typing import Any

from skeletons import docs as DOCS

MODULE = "checks.c08"
CURLY = {"'": "‘’", '"': "“”"}

OTHER = [
    dict(semantic=False, cleanups=False, x=False),
    dict(semantic=True, cleanups=True, x=True),
    dict(semantic=True, cleanups=False, x=False),
    dict(semantic=False, cleanups=True, x=True),
]


def cases_for(prop: str, tier: str) -> list[dict[str, Any]]:
    th = tier == "thorough"
    cs: list[dict[str, Any]] = []
    fams = list(DOCS.typo(tier)) + list(DOCS.verbatim(tier)) + [c for c in DOCS.blocks(tier) if c["special"] in ("table", "emph-nest", "link-title", "refdef", "footnote", "html-inline", "heading-list", "task", "tag-block-para")]
    from skeletons import lists as L

    fams += [c for c in L.heading_docs(tier) if c["special"].startswith("typo")]
    for c in fams:
        for o in (OTHER if th else OTHER[:2]):
            d = dict(c)
            d.update(prop=prop, other=o, key=f"{c['key']}/{int(o['semantic'])}{int(o['cleanups'])}{int(o['x'])}")
            cs.append(d)
    cs.append(dict(key="twin", fam="typo", ctx="top", special="twin", plines=['"qaa" qab... qac\'s'], prop=prop, other=OTHER[0], twin=True))
    return cs


def cases(tier: str) -> list[dict[str, Any]]:
    return cases_for("C08", tier)


def _protected_positions(text: str) -> set[int]:
    """positions of the output covered by literal spans (found by regex on the final text: code spans/blocks,
    tags, comments, inline HTML, autolinks, bare URLs, link destinations+titles, ref labels, escaped chars)"""
    pats = [
        r"(?ms)^[ >]*(`{3,}|~{3,}).*?^[ >]*\1[`~]*\s*$",   # fenced code
        r"(`+)(?:(?!\1).)+?\1",                              # code spans
        r"\{%.*?%\}|\{#.*?#\}|\{\{.*?\}\}|<!--.*?-->",       # template tags / comments
        r"</?[A-Za-z][^>]*>",                                 # inline html / autolinks
        r"<[a-z][a-z0-9+.-]*:[^ >]*>",
        r"\bhttps?://[^\s)\"<>]+",                            # bare urls
        r"\]\([^)]*\)",                                       # (destination "title")
        r"\]\[[^\]]*\]",                                      # [label]
        r"(?m)^[ >]*\[(?!\^)[^\]]+\]:.*$",                    # link reference definitions (not footnotes)
        r"\[\^[^\]]+\]",                                     # footnote labels
        r"\\.",                                               # escapes
    ]
    pos: set[int] = set()
    # indented code: a 4-space indented line after a blank line - unless it continues a footnote definition
    # (whose continuation paragraphs are indented 4 as well; there code needs 8)
    off = 0
    in_fn = False
    prev_blank = True
    in_icode = False
    for ln in text.split("\n"):
        stripped = ln.strip()
        if ln[:1] not in (" ", "\t", "") and stripped:
            in_fn = bool(re.match(r"\[\^[^\]]+\]:", ln))
        need = "        " if in_fn else "    "
        if stripped and ln.startswith(need) and (prev_blank or in_icode):
            in_icode = True
            pos.update(range(off, off + len(ln)))
        elif stripped:
            in_icode = False
        prev_blank = not stripped
        off += len(ln) + 1
    for p in pats:
        for m in re.finditer(p, text, re.S if "(?ms)" not in p else 0):
            pos.update(range(m.start(), m.end()))
    return pos


def run(env: Any, case: dict[str, Any]) -> Any:
    from flowmark import reformat_text
    from oracles.mdshape import shape
    from oracles.spans import literal_spans

    W = env.int("W")
    doc = env.text(DOCS.doc_of(case))
    o = case["other"]
    prop = case["prop"]
    if prop == "C08":
        kw_off = dict(semantic=o["semantic"], cleanups=o["cleanups"], ellipses=o["x"], smartquotes=False)
        kw_on = dict(kw_off, smartquotes=True)
    else:
        kw_off = dict(semantic=o["semantic"], cleanups=o["cleanups"], smartquotes=o["x"], ellipses=False)
        kw_on = dict(kw_off, ellipses=True)
    off = reformat_text(doc, width=W, **kw_off)
    on = reformat_text(doc, width=W, **kw_on)
    if case.get("twin"):
        env.prove(on == off, f"{prop}:twin", "twin: claims the option changes nothing")
        return [off, on]
    if prop == "C08":
        if len(on) != len(off):
            env.prove(False, "smartquotes:same-length", {"off": off, "on": on})
            return [off, on]
        prot = _protected_positions(off)
        bad = []
        for i, (a, b) in enumerate(zip(off, on)):
            if a == b:
                continue
            if a not in CURLY or b not in CURLY[a]:
                bad.append(("not-a-quote-swap", i, a, b))
            elif i in prot:
                bad.append(("inside-literal-span", i, a, b))
        env.prove(not bad, "smartquotes:only-quote-chars-in-prose" if not bad else f"smartquotes:{bad[0][0]}", {"bad": bad[:4], "off": off, "on": on})
        # pairing stays within a paragraph: a paragraph's conversion does not depend on the other paragraphs
        if "\n\n" in doc.strip() and case.get("fam") in ("typo", "verbblock", "block"):
            pass
        env.prove(literal_spans(off) == literal_spans(on), "smartquotes:literal-spans-equal", {"off": off, "on": on})
    else:
        def norm(s: str) -> str:
            from checks.c02 import _unprefix

            s = " ".join(_unprefix(s))
            s = s.replace("…", "...")
            s = re.sub(r"\s*\.\.\.\s*", "...", s)
            return re.sub(r"\s+", " ", s)

        env.prove(norm(off) == norm(on), "ellipses:only-dots-and-adjacent-spaces", {"off": off, "on": on})
        env.prove(literal_spans(off) == literal_spans(on), "ellipses:literal-spans-equal", {"off": off, "on": on})

        def strip_shape(x: Any) -> Any:
            if isinstance(x, tuple):
                return tuple(strip_shape(y) for y in x)
            if isinstance(x, str):
                return norm(x)
            return x

        env.prove(strip_shape(shape(off)) == strip_shape(shape(on)), "ellipses:same-structure", {"off": off, "on": on})
        again = reformat_text(on, width=W, **kw_on)
        env.prove(again == on, "ellipses:applying-again-changes-nothing", {"on": on, "again": again})
    return [off, on]


def key_fn(case: dict[str, Any], label: str, item: dict[str, Any], conc: dict[str, Any]) -> str:
    return f"{DOCS.finding_class(case)}/{label}"


def what_fn(case: dict[str, Any], label: str, item: dict[str, Any], conc: dict[str, Any]) -> str:
    f = [x for x in conc.get("failed", []) if x["label"] == label]
    return f"{label} | case {case['key']} model={item['model']} detail={str(f[0]['detail'] if f else '')[:600]!r}"


def main(prop: str = "C08") -> int:
    from checks import common as C
    from engines import driver as D

    ev = C.Evidence(prop, "model_checking")
    cs = cases_for(prop, C.tier())
    findings, harness = D.run_check(prop, "checks.c08" if prop == "C08" else "checks.c09", cs, ev, key_fn, sample_paths=2 if C.tier() == "quick" else 4, what_fn=what_fn)
    kern = {}
    try:
        from checks import kernels

        f2, h2, kern = kernels.run_for(prop, ev)
        findings += f2
        harness += h2
    except ImportError:
        kern = {"status": "E-CH kernels not built in this revision"}
    ev.add(
        rule="case = (typography / verbatim / block skeleton, other options); state = joint feasible path of the run with the option on and off; obligations: character-level differential + literal spans + structure",
        functions_encoded=["reformat_api.reformat_text with the option on and off (whole pipeline incl. doc_transforms.rewrite_text_across_inlines / rewrite_text_content, smartquotes.smart_quotes, ellipses.ellipses)"],
        bounds="TYPO_PARAS, VERBATIM_WORDS/BLOCKS, selected BLOCKS; other options: %d settings; lengths and W unbounded" % (4 if C.tier() == "thorough" else 2),
        kernels=kern,
        sources=C.source_hashes(["src/flowmark/typography/smartquotes.py", "src/flowmark/typography/ellipses.py", "src/flowmark/transforms/doc_transforms.py", "src/flowmark/linewrapping/markdown_filling.py"]),
    )
    ev.assumptions += ["A1/A2 (validated by replay)", "literal spans in the *output text* are located by a regex scanner (for the position test) and by the Marko-based extractor (for equality)"]
    return C.finish(ev, findings, harness)


if __name__ == "__main__":
    sys.exit(main())
