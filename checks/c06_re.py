"""
C06 E-RE lemmas: the line predicates that decide where blank lines go around tags, lifted from their *current
source* (engines.symstr.lift: AST pass for `in`/`len`/`not`, everything else executed as written on a SymStr under
the symlen explorer) and compared with short reference regexes in z3's sequence theory.
  L1  line_is_list_item(x)  <=>  x in  ws* ([-*+] | [0-9]{1,9}[.)]) [ \\t] .*          (CommonMark list item start)
  L2  line_is_table_row(x)  <=>  x in  ws* "|" .*
  L3  _is_tag_only_line(x)  =>  line_starts_with_tag(x) and line_ends_with_tag(x)
  L4  _is_closing_tag(x)    =>  line_starts_with_tag(x)
Bound: |x| <= 12, ASCII whitespace/digits only in the model of strip()/isdigit() (Unicode classes are outside).
Translation validation both ways on every run (string literals of the module's own tests pinned into the encoding;
one model per path through the real function).  A divergence is replayed through reformat_text inside a tag block
and reported only if the document structure changes.
"""
from __future__ import annotations

import ast
import re
import time
from typing import Any

import z3

MAXLEN = 12
REF = {
    "line_is_list_item": r"[ \t\n\r\x0b\x0c]*(?:[-*+]|[0-9]{1,9}[.)])[ \t].*",
    "line_is_table_row": r"[ \t\n\r\x0b\x0c]*\|.*",
}


def _paths(fn: Any, x: Any, base: int) -> tuple[list[tuple[list[Any], bool]], list[Any], dict[str, Any]]:
    from engines import symlen as S
    from engines import symstr as SS

    lifted = SS.lift(fn)
    ex = S.Explorer(timeout_ms=30000)
    ex._assume_pre(z3.Length(x) <= MAXLEN)

    def run(e: Any) -> Any:
        e.notes["_fresh"] = base
        r = lifted(SS.SymStr(x))
        return bool(r) if isinstance(r, S.SymBool) else bool(r)

    paths = ex.explore(run, want_models=False)
    bad = [p for p in paths if p.exc is not None]
    if bad:
        raise RuntimeError(f"{fn.__name__} raised on a symbolic path: {bad[0].exc!r}")
    return [(p.pc, bool(p.ret)) for p in paths], list(ex.pre), {"paths": len(paths), "queries": ex.stats.queries, "complete": ex.partition_complete(paths)}


def _corpus(module: Any) -> list[str]:
    src = ast.parse(open(module.__file__).read())
    out = []
    for node in ast.walk(src):
        if isinstance(node, ast.Constant) and isinstance(node.value, str) and 0 < len(node.value) <= MAXLEN and "\n" not in node.value:
            out.append(node.value)
    return sorted(set(out))[:60]


def lemmas(ev: Any) -> tuple[list[Any], list[str], dict[str, Any]]:
    import flowmark.linewrapping.block_heuristics as BH
    import flowmark.linewrapping.tag_handling as TH
    from checks import common as C
    from engines import re2smt, symlen

    t0 = time.time()
    harness: list[str] = []
    findings: list[Any] = []
    info: dict[str, Any] = {"bounds": f"|x|<={MAXLEN}; strip()/isdigit() modelled over ASCII", "lemmas": {}}
    x = z3.String("x")
    th = C.tier() == "thorough"
    fns = {"line_is_list_item": BH.line_is_list_item, "line_is_table_row": BH.line_is_table_row}
    if th:
        fns.update({"_is_tag_only_line": TH._is_tag_only_line, "line_starts_with_tag": TH.line_starts_with_tag, "line_ends_with_tag": TH.line_ends_with_tag, "_is_closing_tag": TH._is_closing_tag})
    enc: dict[str, tuple[list[tuple[list[Any], bool]], list[Any]]] = {}
    try:
        for k, (name, fn) in enumerate(fns.items()):
            ps, pre, st = _paths(fn, x, base=100 * (k + 1))
            enc[name] = (ps, pre)
            info["lemmas"][name] = st
            if st["complete"] != "unsat":
                harness.append(f"C06-RE: path partition of {name} not complete ({st['complete']})")
    except (symlen.HarnessError, re2smt.TranslationRefused, Exception) as e:  # noqa: BLE001
        return [], [], {"status": "refused", "reason": f"{type(e).__name__}: {e}"[:300]}

    def solver(*cons: Any) -> Any:
        s = z3.Solver()
        s.set("timeout", 30000)
        s.add(z3.Length(x) <= MAXLEN, *cons)
        return s

    # translation validation, both directions
    tv = 0
    corpus = _corpus(BH) + ["{% a %}", "<!-- a -->", " {% a %}", "{% /a %}", "{{ x }}", "{# c #}", "a {% b %}", "{% a %} b", "-->", "", " "]
    if not th:
        corpus = ["- x", "12. x", "| a", "1.0", " *"]
    else:
        corpus = corpus[::3]
    for name, fn in fns.items():
        ps, pre = enc[name]
        for s_ in corpus:
            hits = []
            for pc, ret in ps:
                s = solver(*pre, *pc, x == z3.StringVal(s_))
                if s.check() == z3.sat:
                    hits.append(ret)
            if len(hits) != 1 or hits[0] != bool(fn(s_)):
                harness.append(f"C06-RE translation validation: {name}({s_!r}) real={bool(fn(s_))} encoding={hits}")
            tv += 1
        for pc, ret in ps:
            s = solver(*pre, *pc)
            if s.check() == z3.sat:
                v = s.model().eval(x, model_completion=True).as_string()
                if bool(fn(v)) != ret:
                    harness.append(f"C06-RE translation validation: path model {v!r} of {name}: real={bool(fn(v))} encoding={ret}")
                tv += 1
    # L1, L2: equivalence with the reference regex
    nq = nunsat = 0
    div: list[dict[str, Any]] = []
    for name, rx in REF.items():
        lang = re2smt.fullmatch_lang(re.compile(rx, re.DOTALL))
        ps, pre = enc[name]
        for pc, ret in ps:
            s = solver(*pre, *pc, z3.Not(z3.InRe(x, lang)) if ret else z3.InRe(x, lang))
            r = s.check()
            nq += 1
            if r == z3.unsat:
                nunsat += 1
            elif r == z3.sat:
                div.append({"lemma": name, "x": s.model().eval(x, model_completion=True).as_string(), "impl": ret})
            else:
                harness.append(f"C06-RE: unknown for {name}")
    # L3, L4: implications between predicates
    inconclusive = 0
    pending: list[tuple[str, str]] = []
    for a, bs in ((("_is_tag_only_line", ["line_starts_with_tag", "line_ends_with_tag"]), ("_is_closing_tag", ["line_starts_with_tag"])) if th else ()):
        for b in bs:
            for pca, ra in enc[a][0]:
                if not ra:
                    continue
                for pcb, rb in enc[b][0]:
                    if rb:
                        continue
                    s = solver(*enc[a][1], *enc[b][1], *pca, *pcb)
                    s.set("timeout", 8000)
                    r = s.check()
                    nq += 1
                    if r == z3.unsat:
                        nunsat += 1
                    elif r == z3.sat:
                        div.append({"lemma": f"{a} => {b}", "x": s.model().eval(x, model_completion=True).as_string(), "impl": True})
                    else:
                        pending.append((f"{a} => {b}", s.to_smt2()))
    if pending:
        # z3 gave up: ask cvc5 (one process per query, hard limit); still unknown = inconclusive, recorded, never a pass
        from engines.crosscheck import cvc5_verdicts

        for (what, _t), v in zip(pending, cvc5_verdicts([t for _w, t in pending], timeout_s=30)):
            if v == "unsat":
                nunsat += 1
            elif v == "sat":
                harness.append(f"C06-RE: cvc5 finds a model for {what} that z3 could not decide (no model extraction implemented)")
            else:
                inconclusive += 1
    # replay divergences inside a tag block
    jobs, meta = [], []
    for d in div:
        doc = "{% t %}\n" + d["x"] + "\n{% /t %}\n"
        jobs.append({"op": "reformat_text", "text": doc, "kwargs": {"width": 40, "semantic": False, "cleanups": False}})
        meta.append((d, doc))
    from oracles.mdshape import shape
    from oracles.tagblocks import separate_tag_blocks

    confirmed = 0
    for (d, doc), rr in zip(meta, C.replay_batch(jobs) if jobs else []):
        if "exc" in rr:
            continue
        if shape(rr["out"]) != shape(separate_tag_blocks(doc)):
            confirmed += 1
            findings.append(C.Finding("C06", f"predicate[{d['lemma']}]", f"line predicate diverges from its reference on {d['x']!r} and the document changes: {doc!r} -> {rr['out']!r}",
                                      {"op": "reformat_text", "text": doc, "kwargs": {"width": 40, "semantic": False, "cleanups": False}}))
    info.update(inconclusive=(inconclusive if th else "L3/L4 run in the thorough tier"), queries=nq, unsat=nunsat, divergences=div[:8], divergences_confirmed_by_replay=confirmed, translation_validation_checks=tv, wall_s=round(time.time() - t0, 1))
    return findings, harness, info


if __name__ == "__main__":
    import json
    import sys

    f, h, i = lemmas(None)
    json.dump({"findings": [dict(prop=x.prop, key=x.key, what=x.what, replay=x.replay) for x in f], "harness": h, "info": i}, open(sys.argv[1], "w"), default=str)
