"""
C03 - the output is a canonical form independent of the input's line layout.

(a) relayout: d' = the same word sequence with other gaps (runs of spaces, newlines at other places,
    re-indented continuation lines; gaps touching a tag/comment and newlines before block-start words are left
    alone because they are meaningful).  format(d') == format(d) on every joint path.
(b) history: TWO symbolic widths W1, W2 and modes m1, m2:
    format_{W2,m2}(format_{W1,m1}(d)) == format_{W2,m2}(d).
Real code: reformat_text; symbolic: all word lengths, W (W1, W2).
"""
from __future__ import annotations

import random
import re
import sys
from typing import Any

from skeletons import contexts as K
from skeletons import docs as DOCS

MODULE = "checks.c03"

_PROTECT = re.compile(r"\{%.*?%\}|\{#.*?#\}|\{\{.*?\}\}|<!--.*?-->|<[^>]*>")
_PLAIN_WORD = re.compile(r"^(?:q[a-z]{2}[.,']?s?'?d?|2019\.|\||3\)|\[q.*|`q.*|\*+q.*|~~q.*|http.*|!\[.*|\"?q[a-z]{2}.*)$")


def relayout(case: dict[str, Any], rnd: random.Random) -> list[str] | None:
    """Another layout of the same paragraph: list of source lines (without container prefixes)."""
    text = " ".join(case["words"])
    protected = set()
    for m in _PROTECT.finditer(text):
        for i in range(max(0, m.start() - 1), min(len(text), m.end() + 1)):
            protected.add(i)
    out = []
    i = 0
    changed = False
    while i < len(text):
        ch = text[i]
        if ch == " " and i not in protected:
            nxt = text[i + 1 :].split(" ", 1)[0]
            opts = [" ", "  ", "   "]
            if _PLAIN_WORD.match(nxt):
                opts += ["\n", " \n", "\n  ", "\n"]
            g = rnd.choice(opts)
            changed = changed or g != " "
            out.append(g)
        else:
            out.append(ch)
        i += 1
    if not changed:
        return None
    return "".join(out).split("\n")


def cases(tier: str) -> list[dict[str, Any]]:
    th = tier == "thorough"
    rnd = random.Random(f"c03:{__import__('os').environ.get('VERIF_SEED', '0')}")
    cs: list[dict[str, Any]] = []
    paras = [c for c in list(DOCS.para_special(tier, n=4)) + list(DOCS.typo(tier)) + [v for v in DOCS.verbatim(tier) if v.get("fam") == "verb" and v["special"] in ("possessives", "esc-quotes", "quoted-code", "apos-after-code", "url-apos")] if c["ctx"] in (("top", "bullet", "quote", "footnote-long", "nested") if th else ("top", "bullet", "quote"))]
    nrel = 4 if th else 2
    for c in paras:
        if DOCS.special_key(c).endswith("@first]") and c["special"] in dict(DOCS.HAZ):
            continue  # a block-start word in first position makes the skeleton a list/heading/quote, not a paragraph
        for sem in (False, True):
            for r in range(nrel):
                pl = relayout(c, rnd)
                if pl is None:
                    continue
                d = dict(c)
                d.update(kind="relayout", sem=sem, plines2=pl, key=f"relayout/{c['key']}/{'sem' if sem else 'fill'}/r{r}")
                cs.append(d)
    # systematic: for typography paragraphs, one relayout per gap with a newline exactly there, and one with a newline at every gap
    for c in DOCS.typo(tier):
        if c["ctx"] not in ("top", "bullet"):
            continue
        ws = c["words"]
        def taggy(w: str) -> bool:
            return any(t in w for t in ("{%", "{#", "{{", "<!--", "%}", "#}", "}}", "-->"))

        ks = [k for k in range(1, len(ws)) if not taggy(ws[k - 1]) and not taggy(ws[k])]   # never next to a tag/comment
        layouts = [[" ".join(ws[:k]), " ".join(ws[k:])] for k in ks]
        if len(ks) == len(ws) - 1:
            layouts.append(list(ws))
        for r, pl in enumerate(layouts):
            for sem in (False, True):
                d = dict(c)
                d.update(kind="relayout", sem=sem, plines2=pl, key=f"relayout/{c['key']}/{'sem' if sem else 'fill'}/nl{r}")
                cs.append(d)
    # whitespace-only relayouts of block skeletons: blank lines around the document, extra blank lines between
    # blocks, doubled spaces between words (never inside code, never at a line start)
    for c in DOCS.blocks(tier):
        doc = c["doc"]
        has_code = "```" in doc or "~~~" in doc or "\n    " in doc
        variants = ["\n\n" + doc + "\n\n"]
        if not has_code:
            if '"q' not in doc:  # link titles are not prose: their spaces are content (C04)
                variants.append(re.sub(r"(?<=q[a-z]{2}) (?=q[a-z]{2})", "   ", doc))
            if "- " not in doc and "> " not in doc and "1" not in doc and "|" not in doc:
                variants.append(doc.replace("\n\n", "\n\n\n\n"))
        for r, d2 in enumerate(variants):
            if d2 == doc:
                continue
            for sem in (False, True):
                d = dict(c)
                d.update(kind="relayout", sem=sem, doc2=d2, key=f"relayout/{c['key']}/{'sem' if sem else 'fill'}/v{r}")
                cs.append(d)
    # history
    hist = [c for c in DOCS.para_special(tier, n=(4 if th else 3)) if c["ctx"] in (("top", "bullet", "quote") if th else ("top", "bullet"))]
    if not th:
        hist = [c for c in hist if c["key"].split("@")[-1] in ("0", "2")]
    modes = [(False, False), (True, False), (False, True), (True, True)] if th else [(False, False), (True, False)]
    for c in hist:
        for m1, m2 in modes:
            d = dict(c)
            d.update(kind="history", m1=m1, m2=m2, key=f"history/{c['key']}/{int(m1)}{int(m2)}", cost=30)
            cs.append(d)
    for c in list(DOCS.blocks(tier)) + list(DOCS.typo(tier)):
        ntok = len(set(re.findall(r"q[a-z]{2}", DOCS.doc_of(c))))
        if not th and ntok > 6:
            continue  # joint path count grows with the square of the layouts: big skeletons are thorough-tier
        d = dict(c)
        d.update(kind="history", m1=True, m2=False, key=f"history/{c['key']}/10", cost=ntok ** 3)
        cs.append(d)
    cs.append(dict(key="twin/relayout", kind="relayout", fam="para", ctx="top", special="twin", words=["qaa", "qab", "qac"], plines=["qaa qab qac"], plines2=["qaa qab", "qac"], sem=False, twin=True))
    return cs


def run(env: Any, case: dict[str, Any]) -> Any:
    from checks.c02 import diff_kind
    from flowmark import reformat_text

    if case["kind"] == "relayout":
        W = env.int("W")
        d1 = env.text(DOCS.doc_of(case))
        d2 = env.text(case["doc2"] if "doc2" in case else K.embed(K.CONTEXTS[case["ctx"]], case["plines2"]))
        if case.get("twin"):
            env.prove(d1 == d2, "relayout:twin", "twin: claims the two sources are identical")
            return [d1, d2]
        typo = case.get("fam") in ("typo", "verb")
        o1 = reformat_text(d1, width=W, semantic=case["sem"], cleanups=False, smartquotes=typo, ellipses=typo)
        o2 = reformat_text(d2, width=W, semantic=case["sem"], cleanups=False, smartquotes=typo, ellipses=typo)
        if o1 != o2:
            env.prove(False, "relayout:" + diff_kind(o1, o2), {"src2": d2, "out1": o1, "out2": o2})
        else:
            env.prove(True, "relayout")
        return [o1, o2]
    if case["kind"] == "history":
        W1, W2 = env.int("W1"), env.int("W2")
        d = env.text(DOCS.doc_of(case))
        mid = reformat_text(d, width=W1, semantic=case["m1"], cleanups=False)
        via = reformat_text(mid, width=W2, semantic=case["m2"], cleanups=False)
        direct = reformat_text(d, width=W2, semantic=case["m2"], cleanups=False)
        if via != direct:
            env.prove(False, "history:" + diff_kind(direct, via), {"mid": mid, "via": via, "direct": direct})
        else:
            env.prove(True, "history")
        return [mid, via, direct]
    raise ValueError(case["kind"])


def key_fn(case: dict[str, Any], label: str, item: dict[str, Any], conc: dict[str, Any]) -> str:
    cls = DOCS.finding_class(case)
    # line-start escapes introduced at one width persist at another, whichever marker is involved
    if label == "history:escape" and case.get("fam") == "para" and (case["special"] in dict(DOCS.HAZ) or case["special"] == "esc-period") and DOCS.special_key(case).endswith("@inner]"):
        cls = "escape-persists"
    if cls in ("first-word-alone", "sentence-initial-marker"):
        label = label.split(":")[0]
    if label == "relayout:space-runs":
        # runs of spaces surviving in a heading line or a table row (neither is re-flowed), wherever it sits
        outs = conc.get("out") or []
        if len(outs) == 2:
            from checks.c02 import _unprefix

            diff = [a for a, b in zip(_unprefix(outs[0]), _unprefix(outs[1])) if a != b]
            if diff and all(re.match(r"(?:[-*+] |\d+[.)] )*(#|\|)", x) or "|" in x for x in diff):
                cls = "heading-or-table-row"
    return f"{cls}/{label}"


def what_fn(case: dict[str, Any], label: str, item: dict[str, Any], conc: dict[str, Any]) -> str:
    return f"{label} | case {case['key']} model={item['model']} outputs={conc.get('out')!r}"


def main() -> int:
    from checks import common as C
    from engines import driver as D

    ev = C.Evidence("C03", "model_checking")
    cs = cases(C.tier())
    findings, harness = D.run_check("C03", MODULE, cs, ev, key_fn, sample_paths=2 if C.tier() == "quick" else 4, max_paths=30000, what_fn=what_fn)
    ev.add(
        rule="case = (skeleton, relayout | (mode1, mode2)); state = feasible joint path of the two (three) formatting runs; obligation: byte-equal outputs",
        functions_encoded=["reformat_api.reformat_text (whole pipeline), two or three runs per path"],
        bounds="paragraph skeletons with <=4 plain tokens + one special, typography paragraphs, block skeletons; seeded relayouts (%d per skeleton); W or (W1, W2) and all lengths unbounded" % (4 if C.tier() == "thorough" else 2),
        sources=C.source_hashes(["src/flowmark/linewrapping/text_wrapping.py", "src/flowmark/linewrapping/line_wrappers.py", "src/flowmark/linewrapping/sentence_split_regex.py",
                                 "src/flowmark/formats/flowmark_markdown.py", "src/flowmark/linewrapping/tag_handling.py"]),
    )
    ev.assumptions += ["A1/A2 (validated per sampled path by replay)", "a relayout never puts a newline next to a tag/comment or before a word that could start a block (those layouts are meaningful)"]
    return C.finish(ev, findings, harness)


if __name__ == "__main__":
    sys.exit(main())
